#!/bin/bash
# Offline setup: make sure hypothesis is importable by /venv's python, atheris in /verif/.deps
HERE="$(cd "$(dirname "$0")" && pwd)"
PY=/venv/bin/python
WH=/opt/veriftools/wheels
$PY -c "import hypothesis" 2>/dev/null || /venv/bin/pip install --no-index --find-links $WH hypothesis >/dev/null 2>&1 \
  || /venv/bin/pip install --no-index --find-links $WH --target "$HERE/.deps" hypothesis >/dev/null 2>&1
PYTHONPATH="$HERE/.deps" $PY -c "import atheris" 2>/dev/null || /venv/bin/pip install --no-index --find-links $WH --target "$HERE/.deps" atheris >/dev/null 2>&1 || echo "setup: atheris not installable (thorough tiers fall back to hypothesis only)"
mkdir -p "$HERE/evidence" "$HERE/replays" "$HERE/.work"
PYTHONPATH="$HERE/.deps" $PY -c "import hypothesis; print('setup ok: hypothesis', hypothesis.__version__)"
