#!/usr/bin/env python
"""Atheris target for C12: bytes -> unicode text (+ section offset) -> the same judge as the Hypothesis check.
Violations are collected (bucketed by cell), never raised, so one shallow defect does not end the campaign."""
import atexit
import hashlib
import json
import os
import sys
import warnings

HERE = os.path.dirname(os.path.dirname(os.path.abspath(__file__)))
sys.path[:0] = [os.environ.get('VERIF_REPO', '/repo'), HERE, os.path.join(HERE, '.deps')]
warnings.simplefilter('ignore')
import atheris

with atheris.instrument_imports(include=['pedal.source', 'pedal.utilities', 'pedal.core']):
    import pedal.source  # noqa
    import pedal.utilities.exceptions  # noqa
from checks import c12_verify as C

STATE = {'evaluations': 0, 'nontrivial': set(), 'cells': {}, 'samples': []}
OUT = os.environ.get('C12_FUZZ_OUT')


def dump():
    if OUT:
        data = dict(STATE, nontrivial=sorted(STATE['nontrivial']))
        with open(OUT + '.tmp', 'w') as f:
            json.dump(data, f)
        os.replace(OUT + '.tmp', OUT)


def one_input(data):
    fdp = atheris.FuzzedDataProvider(data)
    offset = fdp.ConsumeIntInRange(0, 3)
    text = fdp.ConsumeUnicodeNoSurrogates(400)
    case = {'text': text, 'offset': offset}
    res = C.judge(case)
    STATE['evaluations'] += 1
    if res.nontrivial:
        STATE['nontrivial'].add(hashlib.sha1(json.dumps(case, sort_keys=True).encode()).hexdigest()[:16])
        if len(STATE['samples']) < 3:
            STATE['samples'].append(case)
    for v in res.violations:
        size = len(json.dumps(case))
        slot = STATE['cells'].get(v.cell)
        if slot is None or size < slot['size']:
            STATE['cells'][v.cell] = {'msg': v.msg, 'case': case, 'count': (slot or {}).get('count', 0) + 1, 'size': size}
        else:
            slot['count'] += 1
    if STATE["evaluations"] % 1000 == 0:
        dump()


if __name__ == '__main__':
    atheris.Setup(sys.argv, one_input)
    try:
        atheris.Fuzz()
    finally:
        dump()
