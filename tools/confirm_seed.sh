#!/bin/bash
# usage: tools/confirm_seed.sh C02 "C02 C01"   -> confirms an independently written breaking change in its scratch worktree
#        (suite unchanged, demo fails with / passes without), copies it to seeded/<id>/ and runs the named quick checks against it.
set -u
ID="$1"; CHECKS="${2:-$1}"
R="${SEED_ROUND:-}"                      # SEED_ROUND=2 -> worktree /tmp/seed2_<id>, kept under seeded/<id>/r2/
WT=/tmp/seed${R}_$ID
OUT=/verif/seeded/$ID${R:+/r$R}
TAG=$ID${R:+_r$R}
[ -f "$WT/_seed/patch.diff" ] || { echo "no patch in $WT/_seed"; exit 3; }
mkdir -p "$OUT"
cd "$WT"; export PYTHONPATH="$WT"
# normalise the worktree to exactly the delivered patch (git stash is shared between worktrees: never use it here)
git checkout -q -- pedal
git apply --whitespace=nowarn _seed/patch.diff || { echo "delivered patch does not apply"; exit 3; }
git diff -- pedal > /var/tmp/seed_actual_$TAG.diff
SUITE_WITH=$(/venv/bin/python -m pytest -q -p no:cacheprovider 2>&1 | tail -1)
/venv/bin/python _seed/demo.py > /var/tmp/seed_demo_with_$TAG.txt 2>&1; RC_WITH=$?
git apply -R --whitespace=nowarn /var/tmp/seed_actual_$TAG.diff
/venv/bin/python _seed/demo.py > /var/tmp/seed_demo_without_$TAG.txt 2>&1; RC_WITHOUT=$?
git apply --whitespace=nowarn /var/tmp/seed_actual_$TAG.diff
echo "suite with change: $SUITE_WITH"
echo "demo with change: exit $RC_WITH ($(tail -1 /var/tmp/seed_demo_with_$TAG.txt | cut -c1-120))"
echo "demo without change: exit $RC_WITHOUT ($(tail -1 /var/tmp/seed_demo_without_$TAG.txt | cut -c1-120))"
cp /var/tmp/seed_actual_$TAG.diff "$OUT/patch.diff"
cp _seed/demo.py "$OUT/demo.py"
cp _seed/notes.md "$OUT/notes.md" 2>/dev/null
cd /verif; unset PYTHONPATH
RESULTS=""
for C in $CHECKS; do
  LINE=$(MUT_ARGS="--no-shrink" tools/mutate.sh "$C" "$OUT/patch.diff" | head -1 | cut -c1-400)
  echo "$LINE"
  RESULTS="$RESULTS$LINE
"
done
python3 - "$ID" "$SUITE_WITH" "$RC_WITH" "$RC_WITHOUT" "$CHECKS" "$WT" "$OUT" <<PYEOF
import json, sys, re
pid, suite, rc_with, rc_without, checks, wt, out = sys.argv[1:8]
results = """$RESULTS"""
caught = re.findall(r'check=(C\d+) exit=1', results)
missed = re.findall(r'check=(C\d+) exit=0', results)
meta = {'property': pid, 'written_by': 'independent sub-agent given only the property text and a scratch worktree',
        'confirmed': {'suite_with_change': suite, 'demo_exit_with_change': int(rc_with), 'demo_exit_without_change': int(rc_without),
                      'ok': ('493 passed' in suite and '10 failed' in suite and int(rc_with) != 0 and int(rc_without) == 0)},
        'ran': ['cd %s && /venv/bin/python -m pytest -q -p no:cacheprovider' % wt, '/venv/bin/python _seed/demo.py (with / without the change)',
                'tools/mutate.sh <check> %s/patch.diff for checks: %s' % (out[len('/verif/'):], checks)],
        'caught_by': caught, 'missed_by': missed}
try:
    meta['needs_to_manifest'] = open(out + '/notes.md').read()[:1500]
except Exception:
    pass
json.dump(meta, open(out + '/meta.json', 'w'), indent=1)
print('confirmed' if meta['confirmed']['ok'] else 'NOT CONFIRMED', 'caught_by', caught, 'missed_by', missed)
PYEOF
