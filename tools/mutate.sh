#!/bin/bash
# usage: tools/mutate.sh "<pids>" <patchfile | -e 'python-expr on file text'> ...
# Copies /repo/pedal to a scratch dir, applies a patch (git apply) and runs the quick checks with VERIF_REPO there.
set -u
PIDS="$1"; PATCH="$(readlink -f "$2")"
SCR=$(mktemp -d /var/tmp/mut.XXXXXX)
trap 'rm -rf "$SCR"' EXIT
rsync -a --exclude .git --exclude docsrc --exclude '*.pyc' /repo/ "$SCR/"
( cd "$SCR" && git init -q . 2>/dev/null && git apply --whitespace=nowarn "$PATCH" ) || { echo "PATCH FAILED"; exit 3; }
for P in $PIDS; do
  VERIF_REPO="$SCR" /verif/check "$P" --tier quick ${MUT_ARGS:-} > "$SCR/out.$P" 2>&1
  rc=$?
  echo "mutant=$(basename "$PATCH") check=$P exit=$rc $(grep -c '^VIOLATION' "$SCR/out.$P") violations; $(grep -m1 '  cell' "$SCR/out.$P" | cut -c1-200)"
  [ $rc -eq 2 ] && tail -5 "$SCR/out.$P"
done
