"""Grades one (instructor script, submission, environment) triple with pedal's own Bundle runner and returns the observable tuple.
Used in-process by the C13 check and, through __main__, in a fresh interpreter for the reference."""
import json
import re
import sys


def observable(script, code, environment):
    import argparse
    from pedal.command_line.modes import Bundle
    from pedal.core.submission import Submission
    config = argparse.Namespace(threaded=False, resolver='resolve')
    files = dict(code) if isinstance(code, dict) else {'answer.py': code}      # a submission may consist of several files
    sub = Submission(files=files, main_file='answer.py', main_code=files['answer.py'], instructor_file='instructor.py')
    bundle = Bundle(config, script, sub)
    bundle.environment = environment
    bundle.run_ics_bundle()
    res = bundle.result
    final = res.resolution
    out = {'output': mask(res.output), 'error': type(res.error).__name__ if res.error is not None else None,
           'error_text': mask(str(res.error)) if res.error is not None else None}
    # what the student's program printed (the sandbox's captured output)
    try:
        from pedal.core.report import MAIN_REPORT
        out['student_output'] = mask(MAIN_REPORT['sandbox']['sandbox'].raw_output)
    except Exception as e:
        out['student_output'] = 'unavailable:' + type(e).__name__
    if final is None:
        out['resolution'] = None
    elif isinstance(final, dict):
        out['resolution'] = 'dict'
        out['groups'] = sorted(repr(k) for k in final)
    else:
        for attr in ('label', 'title', 'message', 'correct', 'score', 'category'):
            v = getattr(final, attr, None)
            out[attr] = mask(v) if isinstance(v, str) else v
    return out


def mask(text):
    if text is None:
        return None
    return re.sub(r'0x[0-9a-fA-F]+', '0x…', text)


if __name__ == '__main__':
    triples = json.load(open(sys.argv[1]))
    results = []
    for t in triples:
        try:
            results.append(observable(t['script'], t['code'], t['env']))
        except BaseException as e:
            results.append({'harness_error': repr(e)})
        # each triple of the reference file is graded by its own interpreter: see the C13 check (one subprocess per triple)
    json.dump(results, open(sys.argv[2], 'w'))
