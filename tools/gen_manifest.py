#!/usr/bin/env python3
"""Writes /verif/MANIFEST.json from the table below (one place to edit; keeps the manifest valid)."""
import json
import os
import subprocess

HERE = os.path.dirname(os.path.dirname(os.path.abspath(__file__)))

# id -> (technique, level text, level note, design ref)
CHECKS = {
    'C01': ('Hypothesis-generated feedback/suppression scenarios vs an independent reference model of ranking and '
            'suppression (differential), all three resolvers',
            'Generated-input search: ~24k scenarios per quick run (640k thorough) of up to 8 feedbacks x 4 suppressions '
            'judged against a model written from the docs; finds mis-ranking, shown-ineligible feedback and resolver '
            'crashes; no claim of absence beyond the explored cases.',
            'Trusts the reference model (vlib/report_model.py) and that observable attributes of Feedback objects are '
            'what resolvers see. Label pool finite; custom priority_key not explored.', '3/C01'),
    'C02': ('Hypothesis scenarios biased to success markers mixed with failures vs reference-model iff oracle',
            'Generated-input search over the same scenario space as C01 with a two-directional oracle (correct iff all '
            'eligible feedback declare correct).',
            'Eligibility model shared with C01; a raising resolve() is left to C01.', '3/C02'),
    'C03': ('Hypothesis scenarios with scored feedback + exhaustively enumerated single-feedback table vs exact '
            'rational-arithmetic reference',
            'Generated-input search plus a complete 8-row x flags x score-form table; score compared with an exact '
            'Fraction sum within the rounding tolerance.',
            'Only the score forms named in the property are generated; suppression model shared with C01.', '3/C03'),
    'C20': ('Hypothesis rule-based state machine over MAIN_REPORT (create/override/clear/contextualize/set_formatter/'
            'delayed conditions) with a bookkeeping model, an independent template renderer and a pristine class-attribute '
            'snapshot as invariants after every step',
            'Stateful generated-input search: histories of up to 20 operations; every step is followed by identity-count, '
            'truth-value, error-path, rendering and override-restoration invariants.',
            'Formatter methods are trusted (dispatch and operand are checked); override fields limited to seven attributes; '
            'class pool = core commands, one tool class, three run-time generated instructor subclasses.', '3/C20'),
    'C16': ('Complete enumeration of operation x value x value x placement against the same operation on the unwrapped '
            'values (differential with CPython), plus Hypothesis-generated nested operands',
            'The operator/value/placement table (about 160k evaluations, every listed operation family, ~48 values incl. '
            'user objects) is enumerated completely on every run; random nested values add depth. Failures are bucketed by '
            '(operation, operand type, placement, symptom).',
            'Proxies are real SandboxResult objects produced by Sandbox.evaluate(); bare proxy needles in real containers '
            'and real_str % proxy are outside the domain (decided in C code of the real operand).', '3/C16'),
    'C19': ('Complete operator x operand-type x sample table and Hypothesis expression trees / nested values, each '
            'judged differentially against CPython (eval) with an independent type-conformance checker',
            'The 23 operators x 25 ordered core type pairs x 16 (thorough 64) sample pairs are enumerated completely; '
            'random expression trees and JSON-like values extend the table. Two-directional: every type-level TypeError '
            'must be reported, and every silent inference must describe the run-time value.',
            'CPython eval is the reference; conformance checker is written against pedal type class names only; '
            'value-dependent TypeErrors are not judged; literal element types stand for their base type.', '3/C19'),
    'C07': ('Complete per-family operand tables (assertion + negation x 4 raw/proxy wrappings x argument order) judged '
            'against the Python relation on the received operands, metamorphic string-normalisation variants, '
            'Hypothesis-perturbed nested values and generated unit_test suites with a known pass count',
            'About 23k cases (each running 8-16 assertion calls) per quick run over every assert_* family; proxies and '
            'error operands come from real sandbox calls. Two-directional oracle plus negation, symmetry and wrapping '
            'invariance.',
            'Python relation evaluated in-process is the reference; normalised string equality judged only through its '
            'documented consequences; int/float isinstance cells and tolerance-boundary floats skipped.', '3/C07'),
    'C08': ('Generated (G-SYNTAX grammar), corpus and AST-mutated programs x the complete documented operator table, call '
            'names, literals incl. near misses, literal types, node kinds and modules at thresholds around the true count; '
            'differential against a plain ast.walk of CPython\'s own tree',
            'About 2000 programs x ~150 ensure/prevent/find queries each per quick run; every query is decided by an '
            'independent count over ast.parse(source), two-directional (fires iff), plus returned-node and reported-line checks.',
            'ast.walk counts are the reference; interval oracle where the statement leaves a choice (unary +/-, augmented '
            'assignment, chained comparisons, f-string pieces).', '3/C08'),
    'C12': ('Hypothesis-generated submissions (valid programs, character-level edits from a structure-biased alphabet, '
            'arbitrary unicode, blank text, tab/space mixes; whole file, inside a section, after an earlier verify) judged '
            'differentially against ast.parse; thorough adds a coverage-guided Atheris/libFuzzer campaign on the same judge',
            'About 10k texts per quick run (420k + 300k fuzzer executions thorough); two-directional oracle on presence, '
            'whole-file line, stored tree and blank detection.',
            'ast.parse of the same interpreter is the reference; texts on which the parser itself hits RecursionError/'
            'MemoryError are skipped.', '3/C12'),
    'C18': ('Generated programs (G-SYNTAX over every node kind, typed G-CS1 programs, corpus, AST mutations) plus a '
            'complete sweep of every declared builtin function and type method; invariants: returns, completes for the '
            'introductory subset, idempotent, history-independent within and across reports, lines in range',
            'About 4.7k programs per quick run (190k thorough incl. small stdlib files); each is analysed six times in '
            'three report histories and compared.',
            'Introductory subset = what G-CS1 generates plus the builtin/method sweep; for arbitrary syntax only '
            '"returns, deterministic, idempotent, lines in range" is asserted.', '3/C18'),
    'C06': ('Hypothesis-generated typed CS1 programs x input queues x function calls with awkward argument values, '
            'differential against the same source exec\'d as __main__ by unmodified CPython in the same process (thorough: '
            'reference itself cross-checked against python -I subprocesses)',
            'About 4.6k program/call cases per quick run (450k thorough); stdout, every student global, outcome class and '
            'line, call results and per-call output are compared.',
            'In-process exec is the reference; programs are limited to the CS1 subset G-CS1 builds; prompt echoes are '
            'removed using marked prompts and a calibrated echo suffix.', '3/C06'),
    'C15': ('Hypothesis rule-based state machine over one sandbox (run/call/evaluate of I/O scripts whose output is known '
            'from the op list, clear_output, set_input/queue_input/clear_input in every argument form) against a raw-string / '
            'line-list / FIFO-queue reference model checked after every step',
            'About 2.5k histories of up to 15 steps per quick run (80k thorough); invariants on raw output, line view, queue, '
            'per-execution record, values returned by input().',
            'Prompt echo suffix and exhausted-queue default are calibrated on a probe; stderr is excluded.', '3/C15'),
    'C04': ('Fault enumeration: failure source x position x entry point x threaded x tracer style product (complete in '
            'thorough, covering subset in quick) plus Hypothesis splices into random CS1 programs; oracle = call returns, '
            'exception class, exactly one runtime feedback, marked student line',
            'About 4k injected failures per quick run, the full ~25k product in thorough (exhaustive within the listed '
            'axes). Every Exception subclass of builtins and 35 hand-built hostile sources are covered.',
            'os._exit / native crashes / memory exhaustion are outside an exec-based sandbox; class of exit()/quit()/blocked '
            'features is not asserted; RecursionError line not asserted.', '3/C04'),
    'C05': ('Hypothesis rule-based state machine over executions with every termination mode (incl. non-Exception '
            'BaseExceptions, timeouts, hostile student code replacing sys.stdout/time.sleep), each history in its own forked '
            'process; invariant on stdout/time.sleep/trace function/module table identity, empty patch stacks and a probe run '
            'after every step',
            'About 1000 histories of up to 12 steps per quick run (24k thorough); the invariant is read whether the call '
            'returned or raised.',
            'State is read after an abandoned thread has been joined (the race is C14); module baseline taken after a warm-up '
            'of benign modes.', '3/C05'),
    'C17': ('Hypothesis rule-based state machine over files constructed from chunks and marker lines (so the expected '
            'split is known by construction) and sequences of separate/next_section/verify/tifa/run/stop/resolve; expected '
            'whole-file lines by reference (code re-positioned with blank lines, then CPython / TIFA outside sections)',
            'About 3.5k histories per quick run (128k thorough); invariants on lossless split, active code, past-the-end '
            'behaviour, syntax/TIFA/runtime location and traceback lines, restoration.',
            'Chunks are built from a fixed line vocabulary with tagged diagnostics; marker patterns: default and one '
            'custom single-group pattern.', '3/C17'),
    'C09': ('Complete enumeration of all branch-only flow programs up to a size bound + Hypothesis-generated larger ones, '
            'judged against a brute-force ground truth over every combination of branch outcomes; loop/function programs '
            'are really executed under plain exec for every input vector and every NameError must be reported',
            'About 20k enumerated + 2k generated programs per quick run (360k + 21k thorough); two-directional for the '
            'three initialisation labels and the unused rule, one-directional (no missed read) for loops and calls.',
            'Reference walker (30 lines) and plain exec are the ground truth; two open known findings (for-body assumed '
            'to run, function-local scoping) are tolerated by root-cause cell.', '3/C09'),
    'C10': ('Hypothesis-generated (program, pattern) pairs - patterns derived from the program, single-edit near misses of '
            'those, fragments of other programs, patterns with foreign content - with every returned AstMap validated by an '
            'independent witness checker',
            'About 8k pairs per quick run (320k thorough); soundness of each match is checked node by node (class, typed '
            'content, child embedding and order, placeholder consistency, match_root).',
            'Witness checker (about 120 lines) is the trusted part; Expr/Module transparency, pass-as-wildcard and None fields '
            'are exempt as pedal documents them.', '3/C10'),
    'C11': ('Hypothesis-generated derivations (fragment choice + wildcard/rename/drop steps) of patterns from the program '
            'itself; by-construction oracle on existence of a match and on placeholder bindings at every stage',
            'About 8k derivations per quick run (320k thorough) over CS1, full-grammar and corpus programs; every prefix of '
            'a derivation is checked, which is the monotonicity clause.',
            'Identifiers occurring in plain-string AST fields are not renamed; wildcards are not placed inside f-strings, '
            'match patterns, type aliases, starred/unpacking arguments, slices.', '3/C11'),
    'C14': ('Enumerated product of non-terminating program kinds x entry points x thread schedules forced through the '
            'guarded sync points x follow-up operations x limits, each case in a forked child with a watchdog; differential of '
            'the follow-ups against a sandbox that never timed out plus invariants on exception, feedback count and stacks',
            '84 forced-schedule cases per quick run, the complete 1008-case product in thorough; the race between grader and '
            'interrupted student thread is made deterministic at three points instead of being left to timing.',
            'Only the three sync points are controlled; the wall-clock bound (limit + 30 s) only detects hangs; a zombie '
            'thread that swallows BaseException and prints is an open known finding.', '3/C14'),
    'C13': ('Hypothesis-generated histories (and all [j, i, j] triples around state-changing scripts) over a seeded pool of '
            '(instructor script, submission, environment) triples, each history in one forked process, every step compared '
            'with the same triple graded alone in a fresh interpreter by pedal\'s own Bundle runner',
            'About 700 histories per quick run over a pool of 48 triples (30k over 200 thorough); 15 state-changing prelude '
            'kinds, 13 body kinds, crash/early-resolve tails, 8 submissions, 3 environments.',
            'Fragments use pedal\'s public API only; vpl and environment=None are not driven; references come from fresh '
            'python processes (one per triple).', '3/C13'),
}

NOT_YET = {}
LEVELS = {'C04': 'fault_enumeration'}


def main():
    with open(os.path.join(HERE, 'properties.jsonl')) as f:
        props = [json.loads(l) for l in f if l.strip()]
    ids = [p['id'] for p in props]
    try:
        commits = subprocess.run(['git', '-C', '/repo', 'log', '--format=%h %s', '--grep', '^hook:'],
                                 capture_output=True, text=True).stdout.strip().splitlines()
    except Exception:
        commits = []
    checks = []
    for pid in ids:
        if pid not in CHECKS:
            continue
        tech, text, note, ref = CHECKS[pid]
        checks.append({
            'property_id': pid,
            'quick_cmd': './check %s --tier quick' % pid,
            'thorough_cmd': './check %s --tier thorough' % pid,
            'evidence_file': 'evidence/%s.json' % pid,
            'replay_cmd_template': './check %s --replay {path}' % pid,
            'engine': 'hypothesis+enumeration',
            'level_claimed': {'category': LEVELS.get(pid, 'exploration'), 'text': text, 'design_ref': 'DESIGN.md section ' + ref},
            'level_note': note,
            'technique': tech,
        })
    na = [{'property_id': pid, 'reason': NOT_YET.get(pid, 'check not built yet in this round (design in DESIGN.md section 3); '
                                                           'property-based testing applies, nothing is claimed until the check exists')}
          for pid in ids if pid not in CHECKS]
    manifest = {
        'version': 1,
        'setup_cmd': './setup.sh',
        'hooks': {
            'guard': 'PEDAL_EDU_PEDAL_VERIF',
            'enable': 'export PEDAL_EDU_PEDAL_VERIF=1 (set by ./check); pedal is imported from /repo working tree, nothing to build',
            'baseline_off_cmd': 'cd /repo && env -u PEDAL_EDU_PEDAL_VERIF /venv/bin/python -m pytest -ra -q -p no:cacheprovider --timeout=900 --continue-on-collection-errors',
            'source_commits': [c.split()[0] for c in commits],
            'add_only': True,
        },
        'engines': [
            {'name': 'hypothesis+enumeration', 'path': 'vlib/driver.py',
             'serves_properties': [c['property_id'] for c in checks],
             'kind_free_text': 'Hypothesis 6.168 strategies / rule-based state machines (seeded from VERIF_SEED, 16 worker '
                               'processes) and itertools enumeration of finite sub-spaces, each case judged by an explicit '
                               'oracle; failures bucketed by root-cause cell, shrunk, written as JSON replay files'},
        ],
        'checks': checks,
        'not_applicable': na,
        'notes': 'Known findings: known_findings.json (open entries are printed as KNOWN-FINDING and tolerated by cell; fixed '
                 'entries suppress nothing). Replays: replays/<id>/*.json; committed regressions: regress/<id>/*.json. '
                 'Exit 2 = harness error / inconclusive, never a VIOLATION.',
    }
    with open(os.path.join(HERE, 'MANIFEST.json'), 'w') as f:
        json.dump(manifest, f, indent=1)
    try:
        import jsonschema
        jsonschema.validate(manifest, json.load(open('/root/.vp/MANIFEST.schema.json')))
        print('MANIFEST valid;', len(checks), 'checks,', len(na), 'not_applicable')
    except ImportError:
        print('MANIFEST written (jsonschema not available for validation)')


if __name__ == '__main__':
    main()
