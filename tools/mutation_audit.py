#!/usr/bin/env python3
"""Sensitivity audit (not a registered check): every patch under mutants/<id>/ is applied to a scratch copy of /repo and the
quick check of <id> is run against it with VERIF_REPO; expected exit 1.  Writes mutants/AUDIT.md."""
import glob
import os
import re
import subprocess
import sys
import time

HERE = os.path.dirname(os.path.dirname(os.path.abspath(__file__)))


def main():
    only = [a for a in sys.argv[1:] if a != '--missing']
    missing_only = '--missing' in sys.argv[1:]        # audit only the patches that have no row yet (all other rows are kept)
    rows = []
    path = os.path.join(HERE, 'mutants', 'AUDIT.md')
    if missing_only and os.path.exists(path):
        for ln in open(path):
            m = re.match(r'\| (C\d\d) \| (\S+) \| (\S+) \| (\S+) \| `(.*)` \|', ln)
            if m and os.path.exists(os.path.join(HERE, 'mutants', m.group(1), m.group(2) + '.patch')):
                rows.append(m.groups())
    elif only and os.path.exists(path):
        # partial re-run: keep the rows of the properties that are not re-audited
        for ln in open(path):
            m = re.match(r'\| (C\d\d) \| (\S+) \| (\S+) \| (\S+) \| `(.*)` \|', ln)
            if m and m.group(1) not in only:
                rows.append(m.groups())
    for d in sorted(glob.glob(os.path.join(HERE, 'mutants', 'C*'))):
        pid = os.path.basename(d)
        if only and pid not in only:
            continue
        for patch in sorted(glob.glob(os.path.join(d, '*.patch'))):
            if missing_only and any(r[0] == pid and r[1] == os.path.basename(patch)[:-6] for r in rows):
                continue
            t0 = time.time()
            env = dict(os.environ, MUT_ARGS='--no-shrink')
            p = subprocess.run([os.path.join(HERE, 'tools', 'mutate.sh'), pid, patch], capture_output=True, text=True, env=env)
            line = (p.stdout.strip().splitlines() or ['?'])[0]
            m = re.search(r'exit=(\d+)', line)
            code = m.group(1) if m else '?'
            cell = re.search(r'cell (\S+)', line)
            rows.append((pid, os.path.basename(patch)[:-6], code, '%.0f' % (time.time() - t0), cell.group(1) if cell else ''))
            print(rows[-1], flush=True)
    rows.sort(key=lambda r: (r[0], r[1]))
    with open(path, 'w') as f:
        f.write('# Mutation audit (tools/mutation_audit.py)\n\nEach mutant is a small compiling edit of pedal that keeps the 493-test suite green '
                '(`revert_fix_*` = the pre-fix behaviour of a repaired defect).\nexit 1 = detected by the quick check, 0 = missed, 3 = patch no longer applies.\n\n')
        f.write('| property | mutant | exit | seconds | first violating cell |\n|---|---|---|---|---|\n')
        for r in rows:
            f.write('| %s | %s | %s | %s | `%s` |\n' % r)
        det = sum(1 for r in rows if r[2] == '1')
        f.write('\n%d of %d mutants detected.\n' % (det, len(rows)))


if __name__ == '__main__':
    main()
