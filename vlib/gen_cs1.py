"""G-CS1: typed synthesiser of deterministic, terminating CS1 programs (source text).

Variable pools per type are initialised at the top; expressions are built per type to depth 3; statements cover
assignment forms, print variants, input(), if/elif/else, for/while, list/dict mutation, def (defaults, recursion,
global), class, try/except/else/finally, raise, assert, lambda, imports of math/string.  `risk` knobs splice in a
statement that fails with a chosen exception class.  No randomness, time, id/hash, namespace introspection, file I/O
or unbounded loops (reasons in DESIGN.md section 2)."""
from hypothesis import strategies as st

INTS = ['i0', 'i1', 'i2']
STRS = ['s0', 's1']
BOOLS = ['b0']
LISTS = ['l0', 'l1']
SLISTS = ['ls0']
DICTS = ['d0']
TUPLES = ['t0']
INT_LITS = ['0', '1', '2', '3', '5', '7', '10', '12', '-1', '-4', '100']
STR_LITS = ["'a'", "'abc'", "'Hello World'", "''", "'x y z'", "'42'", "'Py'", "'naïve'", "'tab\\there'", "'line\\nbreak'", "'50%\\rdone'", "'crlf\\r\\nend'", "'ff\\x0cvt\\x0b'"]
SMALL = ['1', '2', '3']
PROMPTS = ["'«p1»'", "'«p2» '", "'«p3»: '"]   # every input() carries a marked prompt so that echoes can be removed

PRELUDE = '''import sys
import math
import string


class MyError(Exception):
    pass


class Acc:
    kind = 'acc'

    def __init__(self, v):
        self.v = v
        self.log = []

    def add(self, x):
        self.v += x
        self.log.append(x)
        return self.v

    def __repr__(self):
        return 'Acc(%r)' % (self.v,)


def h0(a, b=2):
    return a * b + 1


def fact(n):
    if n <= 1:
        return 1
    return n * fact(n - 1)


counter = 0


def bump(step=1):
    global counter
    counter += step
    return counter


def describe(items, sep=', '):
    out = []
    for it in items:
        out.append(str(it))
    return sep.join(out)


def echo(x):
    return x


def pair(a, b=None, *rest, **kw):
    return (a, b, rest, sorted(kw.items()))


def first(seq):
    return seq[0]


def total(d):
    return sum(d.values())


def shout(text, times=1):
    print(text * times)
    return len(text)


def typed(count: int, word: str = 'x') -> str:
    return word * count


def deep(n):
    if n <= 0:
        return 100 // n
    return deep(n - 1) + 1


exit = 'door'
open = 5
frozenset = 'ice'


def shadowed(extra=0):
    return (exit, open, extra)
'''

RISKS = {
    'ZeroDivisionError': 'i0 = i1 // 0',
    'IndexError': 'i0 = l0[99]',
    'KeyError': "i0 = d0['missing key']",
    'TypeError': 's0 = s0 + 1',
    'NameError': 'i0 = undefined_name + 1',
    'ValueError': "i0 = int('not a number')",
    'AttributeError': 'l0.nope()',
    'AssertionError': "assert i0 == i0 + 1, 'never equal'",
    'MyError': "raise MyError('custom failure')",
    'RuntimeError': "raise RuntimeError('boom')",
    'RecursionError': 'i0 = fact(10 ** 6)',
    'UnboundLocalError': 'def _u():\n    print(zz)\n    zz = 1\n_u()',
    'StopIteration': 'i0 = next(iter([]))',
    'OverflowError': 'i0 = int(math.exp(1000))',
    'ImportError': 'import module_that_does_not_exist_xyz',
    'ZeroDivisionError-deep-recursion': 'i0 = deep(12)',
    'IndexError-deep-chain': ('def _c0(v):\n    return v[5]\n' + ''.join('def _c%d(v):\n    return _c%d(v)\n' % (k, k - 1) for k in range(1, 10))
                              + 'i0 = _c9([1, 2])'),
    'NameError-in-annotation': 'def _annotated(v: UndefinedTypeName) -> int:\n    return 1',
}


@st.composite
def int_expr(draw, depth=2):
    if depth <= 0:
        return draw(st.one_of(st.sampled_from(INTS), st.sampled_from(INT_LITS)))
    k = draw(st.integers(0, 19))
    sub = lambda: draw(int_expr(depth - 1))
    if k <= 2:
        return draw(st.one_of(st.sampled_from(INTS), st.sampled_from(INT_LITS)))
    if k == 3:
        return '(%s + %s)' % (sub(), sub())
    if k == 4:
        return '(%s - %s)' % (sub(), sub())
    if k == 5:
        return '(%s * %s)' % (sub(), draw(st.sampled_from(SMALL)))
    if k == 6:
        return '(%s // %s)' % (sub(), draw(st.sampled_from(['2', '3', '7', '-2'])))
    if k == 7:
        return '(%s %% %s)' % (sub(), draw(st.sampled_from(['2', '3', '10'])))
    if k == 8:
        return 'len(%s)' % draw(st.one_of(st.sampled_from(LISTS + STRS + SLISTS + DICTS)))
    if k == 9:
        return 'abs(%s)' % sub()
    if k == 10:
        return '%s(%s, %s)' % (draw(st.sampled_from(['max', 'min'])), sub(), sub())
    if k == 11:
        return 'sum(%s)' % draw(list_expr(depth - 1))
    if k == 12:
        return "d0.get(%s, %s)" % (draw(st.sampled_from(["'a'", "'b'", "'zz'"])), sub())
    if k == 13:
        return '(%s if %s else %s)' % (sub(), draw(bool_expr(depth - 1)), sub())
    if k == 14:
        return 'h0(%s)' % sub() if draw(st.booleans()) else 'h0(%s, b=%s)' % (sub(), draw(st.sampled_from(SMALL)))
    if k == 15:
        return '(min(abs(%s), 50) ** 2)' % draw(st.sampled_from(INTS + SMALL))
    if k == 16:
        return 'int(%s)' % draw(st.sampled_from(["'12'", "' 7 '", '3.9', 'True', "'-5'"]))
    if k == 17:
        return 'round(%s / %s)' % (sub(), draw(st.sampled_from(['2', '4', '3'])))
    if k == 18:
        return 'fact(%s)' % draw(st.sampled_from(['0', '1', '3', '5']))
    return 'ord(%s)' % draw(st.sampled_from(["'a'", "'Z'", "'0'"]))


@st.composite
def str_expr(draw, depth=2):
    if depth <= 0:
        return draw(st.one_of(st.sampled_from(STRS), st.sampled_from(STR_LITS)))
    k = draw(st.integers(0, 15))
    sub = lambda: draw(str_expr(depth - 1))
    if k <= 2:
        return draw(st.one_of(st.sampled_from(STRS), st.sampled_from(STR_LITS)))
    if k == 3:
        return '(%s + %s)' % (sub(), sub())
    if k == 4:
        return '(%s * %s)' % (sub(), draw(st.sampled_from(['0', '1', '2', '3'])))
    if k == 5:
        return '%s.%s()' % (sub(), draw(st.sampled_from(['upper', 'lower', 'strip', 'title', 'capitalize', 'swapcase'])))
    if k == 6:
        return "%s.replace(%s, %s)" % (sub(), draw(st.sampled_from(["'a'", "' '", "'l'"])), draw(st.sampled_from(["'b'", "'-'", "''"])))
    if k == 7:
        return '%s[%s:%s]' % (draw(st.sampled_from(STRS)), draw(st.sampled_from(['', '0', '1', '-2'])), draw(st.sampled_from(['', '2', '-1', '99'])))
    if k == 8:
        return 'str(%s)' % draw(int_expr(depth - 1))
    if k == 9:
        return "f'{%s} and {%s!r}:{%s:>4}'" % (draw(st.sampled_from(INTS)), draw(st.sampled_from(STRS)), draw(st.sampled_from(INTS)))
    if k == 10:
        return "%s.join(%s)" % (draw(st.sampled_from(["', '", "''", "'-'"])), draw(st.sampled_from(SLISTS)))
    if k == 11:
        return "'{}-{}'.format(%s, %s)" % (draw(int_expr(depth - 1)), sub())
    if k == 12:
        return "('%%d items' %% %s)" % draw(int_expr(depth - 1))
    if k == 13:
        return 'describe(%s)' % draw(list_expr(depth - 1))
    if k == 14:
        return 'string.ascii_lowercase[:%s]' % draw(st.sampled_from(SMALL))
    return "(%s if %s else %s)" % (sub(), draw(bool_expr(depth - 1)), sub())


@st.composite
def bool_expr(draw, depth=2):
    if depth <= 0:
        return draw(st.one_of(st.sampled_from(BOOLS), st.sampled_from(['True', 'False'])))
    k = draw(st.integers(0, 11))
    if k == 0:
        return draw(st.one_of(st.sampled_from(BOOLS), st.sampled_from(['True', 'False'])))
    if k in (1, 2, 3):
        return '(%s %s %s)' % (draw(int_expr(depth - 1)), draw(st.sampled_from(['<', '<=', '==', '!=', '>', '>='])), draw(int_expr(depth - 1)))
    if k == 4:
        return '(%s == %s)' % (draw(str_expr(depth - 1)), draw(str_expr(depth - 1)))
    if k == 5:
        return '(%s in %s)' % (draw(int_expr(depth - 1)), draw(list_expr(depth - 1)))
    if k == 6:
        return '(%s in %s)' % (draw(st.sampled_from(["'a'", "'z'", "'He'"])), draw(str_expr(depth - 1)))
    if k == 7:
        return '(not %s)' % draw(bool_expr(depth - 1))
    if k == 8:
        return '(%s %s %s)' % (draw(bool_expr(depth - 1)), draw(st.sampled_from(['and', 'or'])), draw(bool_expr(depth - 1)))
    if k == 9:
        return "%s.startswith(%s)" % (draw(st.sampled_from(STRS)), draw(st.sampled_from(["'a'", "'H'", "''"])))
    if k == 10:
        return 'isinstance(%s, %s)' % (draw(st.sampled_from(INTS + STRS + LISTS)), draw(st.sampled_from(['int', 'str', 'list'])))
    return "(%s in d0)" % draw(st.sampled_from(["'a'", "'b'", "'q'"]))


@st.composite
def list_expr(draw, depth=2):
    if depth <= 0:
        return draw(st.one_of(st.sampled_from(LISTS), st.sampled_from(['[]', '[1, 2, 3]', '[5]', '[3, 1, 2]'])))
    k = draw(st.integers(0, 10))
    sub = lambda: draw(list_expr(depth - 1))
    if k <= 1:
        return draw(st.one_of(st.sampled_from(LISTS), st.sampled_from(['[]', '[1, 2, 3]', '[5]', '[3, 1, 2]'])))
    if k == 2:
        return '[%s, %s]' % (draw(int_expr(depth - 1)), draw(int_expr(depth - 1)))
    if k == 3:
        return '(%s + %s)' % (sub(), sub())
    if k == 4:
        return '[x * 2 for x in %s]' % sub()
    if k == 5:
        return '[x for x in %s if x > %s]' % (sub(), draw(st.sampled_from(INT_LITS)))
    if k == 6:
        return 'sorted(%s)' % sub()
    if k == 7:
        return 'list(range(%s))' % draw(st.sampled_from(['0', '1', '4', '2, 6', '5, 0, -2']))
    if k == 8:
        return '%s[%s:%s]' % (draw(st.sampled_from(LISTS)), draw(st.sampled_from(['', '1'])), draw(st.sampled_from(['', '2', '-1'])))
    if k == 9:
        return 'list(reversed(%s))' % sub()
    return '(%s * 2)' % sub()


def _ind(text, n=1):
    return '\n'.join('    ' * n + l if l else l for l in text.split('\n'))


@st.composite
def statement(draw, depth=2, in_loop=False, allow_input=True):
    body = lambda **kw: draw(block(depth - 1, allow_input=allow_input, **kw))
    top = 21 if depth <= 0 else 35
    k = draw(st.integers(0, top))
    if k in (34, 35) or (k == 21 and depth <= 0 and draw(st.booleans())):
        # tuples: literals, concatenation of tuples that come from different places, unpacking, indexing
        return draw(st.sampled_from([
            't0 = (t0 + (%s,))[:30]' % draw(int_expr(1)),
            't0 = (t0[1:] + (4,))[:30]',
            't0 = divmod(%s, 3) + (1,)' % draw(int_expr(1)),
            'for pr in enumerate(l0[:4]):\n    t0 = pr + (b0,)',
            'def grow(p):\n    return p + (0,)\nt0 = grow(t0)[:30]',
            'i2 = len(t0)',
            'print(t0, t0[:2], t0 * 2 if len(t0) < 5 else t0[-1])',
            't0 = tuple(l0[:5])',
            't0 = pair(i0, s0)[:2] + (i1,)',
            'q0, q1 = (t0 + (1, 2))[:2]\nprint(q0, q1)',
            't0 = (i0, s0, (i1, b0))',
            'if t0 and isinstance(t0[0], int):\n    i2 = t0[0] + 1',
            'l1 = [e for e in t0 if type(e) is int][:10]',      # (l1 holds ints only: other statements compare and add its elements)
            'print(t0 == tuple(l0), (1, 2) < (1, 3), t0.count(1) if t0 else -1)',
            'for pr2 in zip(l0[:4], ls0):\n    print(pr2[0], pr2[1])',
            'for n2, w2 in zip(l0[:3], (s0 + "ab")[:3]):\n    print(n2, w2)',
            "dm = {'a': i0, 'b': s0, 'c': [i1]}\nfor k2, v2 in dm.items():\n    print(k2, str(v2))\nfor v3 in dm.values():\n    print(str(v3)[:5])",
            "dm = {'n': 1, 'w': 'two'}\nfor k2 in dm.keys():\n    print(k2, dm[k2])",
            "dm = {'n': [i0, 2], 'w': s0}\nfor k2, v2 in dm.items():\n    for part in v2:\n        print(k2, part)\nfor v3 in dm.values():\n    for part in v3:\n        print(part)",
        ]))
    if k <= 1:
        return '%s = %s' % (draw(st.sampled_from(INTS)), draw(int_expr()))
    if k == 2:
        return '%s = (%s)[:60]' % (draw(st.sampled_from(STRS)), draw(str_expr()))
    if k == 3:
        return '%s = %s' % (draw(st.sampled_from(BOOLS)), draw(bool_expr()))
    if k == 4:
        return '%s = (%s)[:40]' % (draw(st.sampled_from(LISTS)), draw(list_expr()))
    if k == 5:
        return '%s %s= %s' % (draw(st.sampled_from(INTS)), draw(st.sampled_from(['+', '-', '*'])), draw(st.sampled_from(INT_LITS[:8])))
    if k == 6:
        v = draw(st.sampled_from(STRS + LISTS))
        return '%s += %s' % (v, draw(st.sampled_from(STR_LITS)) if v in STRS else draw(st.sampled_from(['[1]', '[2, 3]', '[]'])))
    if k == 7:
        a, b = draw(st.sampled_from(INTS)), draw(st.sampled_from(INTS))
        return '%s, %s = %s, %s' % (a, b, b, draw(int_expr(1)))
    if k in (8, 9):
        exprs = [draw(st.one_of(int_expr(), str_expr(), bool_expr(1), list_expr(1))) for _ in range(draw(st.integers(0, 3)))]
        extra = draw(st.sampled_from(['', '', ", sep='-'", ", end='!\\n'", ", sep='', end=''", ", end=' '", ", end='\\r'", ", sep='\\r\\n'", ", end='\\r\\n'"]))
        if not exprs:
            extra = extra.lstrip(', ')
        return 'print(%s%s)' % (', '.join(exprs), extra)
    if k == 10:
        return 'sys.stdout.write(%s)' % draw(str_expr(1))
    if k == 11:
        if not allow_input:
            return 'print(%s)' % draw(str_expr(1))
        form = draw(st.integers(0, 1))
        p = draw(st.sampled_from(PROMPTS))
        if form == 0:
            return '%s = input(%s)' % (draw(st.sampled_from(STRS)), p)
        return '%s = int(input(%s))' % (draw(st.sampled_from(INTS)), p)
    if k == 12:
        return '%s.append(%s)' % (draw(st.sampled_from(LISTS)), draw(int_expr(1)))
    if k == 13:
        return draw(st.sampled_from(['l0.sort()', 'l1.reverse()', 'l0.insert(0, %s)' % draw(int_expr(0)), 'l0.extend([9, 8])',
                                     'ls0.append(%s)' % draw(st.sampled_from(STR_LITS)), 'if l0:\n    i2 = l0.pop()']))
    if k == 14:
        return "d0[%s] = %s" % (draw(st.sampled_from(["'a'", "'b'", "'c'", 's0'])), draw(int_expr(1)))
    if k == 15:
        return draw(st.sampled_from(["d0.pop('a', None)", "d0.update({'k': 1, 'a': 2})", "d0.setdefault('b', 0)",
                                     "for key in sorted(d0):\n    print(key, d0[key])", "for key, val in sorted(d0.items()):\n    i2 += val"]))
    if k == 16:
        return 'obj = Acc(%s)\n%s = obj.add(%s)\nprint(obj, obj.v, len(obj.log))' % (draw(int_expr(1)), draw(st.sampled_from(INTS)), draw(int_expr(1)))
    if k == 17:
        return '%s = bump(%s)' % (draw(st.sampled_from(INTS)), draw(st.sampled_from(['', '2', 'step=3'])))
    if k == 18:
        return 'f0 = lambda x: x + %s\n%s = f0(%s)' % (draw(st.sampled_from(SMALL)), draw(st.sampled_from(INTS)), draw(int_expr(1)))
    if k == 19:
        return '%s = math.%s' % (draw(st.sampled_from(INTS)), draw(st.sampled_from(['floor(i0 / 3)', 'ceil(i1 / 4)', 'isqrt(abs(i2))', 'gcd(i0, 12)'])))
    if k == 20 and draw(st.booleans()):
        return draw(st.sampled_from([
            "print(typed.__annotations__['count'].__name__, typed(2, 'ab'))",
            "ann_n: int = len(typed.__annotations__)\nprint(ann_n)",
            "from dataclasses import dataclass, fields\n@dataclass\nclass Rec:\n    x: int\n    y: str = 'a'\nprint([f.type.__name__ for f in fields(Rec)], Rec(1))",
            "def local_typed(n: int = 3) -> list:\n    return [n]\nprint(local_typed.__annotations__['return'] is list, local_typed())",
            "ann_s: str = typed(1)\nprint(ann_s)"]))
    if k == 20:
        return "assert isinstance(%s, int), 'sanity'" % draw(st.sampled_from(INTS))
    if k == 21 and not in_loop and draw(st.booleans()):
        return draw(st.sampled_from(["if __name__ == '__main__':\n    print('running as main')", 'print(__name__)', 's1 = __name__']))
    if k == 21:
        if in_loop:
            return draw(st.sampled_from(['if i0 > 3:\n    break', 'if i1 % 2 == 0:\n    continue']))
        return 'pass'
    # compound
    if k in (22, 23, 24):
        out = 'if %s:\n%s' % (draw(bool_expr()), _ind(body(in_loop=in_loop)))
        for _ in range(draw(st.integers(0, 2))):
            out += '\nelif %s:\n%s' % (draw(bool_expr()), _ind(body(in_loop=in_loop)))
        if draw(st.booleans()):
            out += '\nelse:\n%s' % _ind(body(in_loop=in_loop))
        return out
    if k in (25, 26):
        head = draw(st.sampled_from(['for n in range(%s):' % draw(st.sampled_from(['3', '0', '1, 4', 'min(len(l0), 5)'])),
                                     'for n in list(%s)[:6]:' % draw(list_expr(1)), 'for ch in (%s)[:6]:' % draw(str_expr(0)),
                                     'for idx, n in enumerate(list(%s)[:6]):' % draw(list_expr(0)), 'for n, m in zip(list(l0)[:6], list(l1)):',
                                     'for key in sorted(d0):']))
        return '%s\n%s' % (head, _ind(body(in_loop=True)))
    if k == 27:
        limit = draw(st.sampled_from(['0', '1', '3', '4']))
        wv = 'w%d' % depth
        return '%s = 0\nwhile %s < %s:\n    %s += 1\n%s' % (wv, wv, limit, wv, _ind(body(in_loop=True)))
    if k == 28:
        fname = draw(st.sampled_from(['g0', 'g1']))
        fbody = body(in_loop=False)
        return 'def %s(a, b=1):\n    global i0, i1, i2, s0, s1, b0, l0, l1, ls0, d0, t0\n%s\n    return a + b\n%s = %s(%s)' % (fname, _ind(fbody), draw(st.sampled_from(INTS)), fname, draw(int_expr(1)))
    if k in (29, 30):
        risky = draw(st.sampled_from(['i0 = i1 // (i2 - i2)', 'i0 = l0[50]', "i0 = d0['nope']", "i0 = int('x')", 'i0 = i1 + 1', 'raise MyError(s0)',
                                      'i0 = int(s0)']))
        exc = draw(st.sampled_from(['(ZeroDivisionError, IndexError, KeyError, ValueError, MyError)', 'Exception', '(ArithmeticError, LookupError, ValueError, MyError)']))
        out = 'try:\n    %s\n%s\nexcept %s as err:\n    print(\'caught\', type(err).__name__)' % (risky, _ind(body(in_loop=in_loop)), exc)
        if draw(st.booleans()):
            out += "\nelse:\n    print('no error')"
        if draw(st.booleans()):
            out += "\nfinally:\n    i2 += 1"
        return out
    if k == 31:
        pi = draw(st.integers(0, 1))
        return 'class P%d:\n    def __init__(self, v):\n        self.v = v\n    def twice(self):\n        return self.v * 2\np = P%d(%s)\n%s = p.twice()' % (
            pi, pi, draw(int_expr(1)), draw(st.sampled_from(INTS)))
    if k == 32:
        return 'ls0 = %s.split(%s)[:8]' % (draw(str_expr(1)), draw(st.sampled_from(['', "' '", "'l'"])))
    return 'd0 = {%s}' % ', '.join("%s: %s" % (key, draw(int_expr(0))) for key in draw(st.lists(st.sampled_from(["'a'", "'b'", "'c'"]), max_size=3, unique=True)))


@st.composite
def block(draw, depth=1, in_loop=False, allow_input=True):
    n = draw(st.integers(1, 3))
    return '\n'.join(draw(statement(depth, in_loop=in_loop, allow_input=allow_input)) for _ in range(n))


@st.composite
def cs1_program(draw, max_statements=12, risk=None, allow_input=True, depth=2):
    """Returns {'code': text, 'risk': class name or None}.  risk=None: maybe add one (35 %); risk=False: none."""
    init = [
        'i0 = %s' % draw(st.sampled_from(INT_LITS)), 'i1 = %s' % draw(st.sampled_from(INT_LITS)), 'i2 = %s' % draw(st.sampled_from(INT_LITS)),
        's0 = %s' % draw(st.sampled_from(STR_LITS)), 's1 = %s' % draw(st.sampled_from(STR_LITS)), 'b0 = %s' % draw(st.sampled_from(['True', 'False'])),
        'l0 = %s' % draw(st.sampled_from(['[1, 2, 3]', '[]', '[5, -1]', '[4, 4, 2, 9]'])), 'l1 = %s' % draw(st.sampled_from(['[0]', '[7, 8]', '[]'])),
        'ls0 = %s' % draw(st.sampled_from(["['x', 'y']", '[]', "['one']"])), 'd0 = %s' % draw(st.sampled_from(["{'a': 1}", '{}', "{'a': 2, 'b': 5}"])),
        't0 = %s' % draw(st.sampled_from(['(1, 2)', '()', "('a', 3, 2.5)", '(7,)'])),
    ]
    n = draw(st.integers(1, max_statements))
    stmts = [draw(statement(depth, allow_input=allow_input)) for _ in range(n)]
    chosen = None
    if risk is None:
        if draw(st.integers(0, 99)) >= 65:
            chosen = draw(st.sampled_from(sorted(RISKS)))
    elif risk:
        chosen = risk if isinstance(risk, str) else draw(st.sampled_from(sorted(RISKS)))
    if chosen:
        pos = draw(st.integers(0, len(stmts)))
        wrap = draw(st.integers(0, 3))
        line = RISKS[chosen]
        if wrap == 1:
            line = 'def risky():\n%s\nrisky()' % _ind(line)
        elif wrap == 2:
            line = 'if True:\n%s' % _ind(line)
        stmts.insert(pos, line)
    code = PRELUDE + '\n' + '\n'.join(init) + '\n' + '\n'.join(stmts) + '\n'
    compile(code, 'answer.py', 'exec')
    return {'code': code, 'risk': chosen}


def input_queue():
    return st.one_of(st.lists(st.sampled_from(['5', '12', 'hello', '0', '-3', ' 7 ', 'x y', '', '3', '41']), max_size=5),
                     st.lists(st.sampled_from(['', '7', 'a\u2028b', 'x\ry', 'tab\tbed', ' ']), min_size=1, max_size=1))


ARG_VALUES = ['0', '1', '-7', '9', '40', '10 ** 30', '2.5', '-0.0', '0.1 + 0.2', '1e-07', '123456.789012345', '2 / 3', "float('nan')", "float('inf')", "-float('inf')", 'True', 'None', "''", "'abc'", "'x' * 300",
              "'quote\'s \\ and \n newline'", '[]', '[1, 2, 3]', "[1, 'a', None, [2.5, (3,)]]", 'list(range(120))', '(1, 2)', '()', "('a',)",
              "{'a': 1, 'b': 2}", "{}", "{1: [1, 2], 'k': {'z': None}}", '{1, 2, 3}', 'set()', 'frozenset({1})', "[float('nan')]", "{'v': float('inf')}",
              "b'bytes'", '(1+2j)', 'range(3)', "'naïve ✓'",
              # instances of subclasses of the builtin containers: they are not what their repr() evaluates to
              "collections.OrderedDict(a=1, b=2)", "collections.Counter('aab')", "collections.defaultdict(int, k=1)",
              "Pt(1, 2)", "Stack([1, 2])", "[collections.OrderedDict(z=0)]",
              # scalars of a subclass (an IntEnum member, a str/float subclass with its own repr), an int too long to print, a list inside itself
              'Level.HIGH', '[Level.LOW]', "Tag('x')", 'Ratio(2.5)', '10 ** 5000', 'selfref()',
              # an object that cannot be printed (its __repr__ fails): a direct call never asks for its repr
              'Mute()', '[Mute()]']
import collections as _collections
import enum as _enum


class _Tag(str):
    def __repr__(self):
        return '<Tag %s>' % str(self)


class _Ratio(float):
    def __repr__(self):
        return 'Ratio(%s)' % float(self)


class _Mute:
    def __repr__(self):
        raise RuntimeError('this object has no printable form')

    def __eq__(self, other):
        return isinstance(other, _Mute)

    __hash__ = None


def _selfref():
    box = [1]
    box.append(box)
    return box


#: names the argument sources above may use (evaluated by the harness, not by student code)
ARG_NAMESPACE = {'collections': _collections, 'Pt': _collections.namedtuple('Pt', 'x y'), 'Stack': type('Stack', (list,), {}),
                 'Level': _enum.IntEnum('Level', 'LOW HIGH'), 'Tag': _Tag, 'Ratio': _Ratio, 'selfref': _selfref, 'Mute': _Mute}
CALLABLES = {  # name -> (min args, max args, accepts kwargs)
    'echo': (1, 1, False), 'pair': (1, 4, True), 'first': (1, 1, False), 'total': (1, 1, False), 'h0': (1, 2, False),
    'fact': (1, 1, False), 'deep': (1, 1, False), 'shadowed': (0, 1, False), 'bump': (0, 1, False), 'describe': (1, 2, False), 'shout': (1, 2, False), 'Acc': (1, 1, False),
}


@st.composite
def call_spec(draw, only=None):
    name = only or draw(st.sampled_from(sorted(CALLABLES)))
    lo, hi, kw = CALLABLES[name]
    n = draw(st.integers(lo, hi))
    args = [draw(st.sampled_from(ARG_VALUES)) for _ in range(n)]
    kwargs = {}
    if kw and draw(st.booleans()):
        for key in draw(st.lists(st.sampled_from(['k1', 'k2', 'zeta']), max_size=2, unique=True)):
            kwargs[key] = draw(st.sampled_from(ARG_VALUES))
    spec = {'f': name, 'args': args, 'kwargs': kwargs}
    if kw and draw(st.booleans()):
        # the instructor keeps one options dictionary and hands it to every such call as function_kwargs=
        spec['options'] = True
        kwargs.pop('zeta', None)
    return spec
