"""Reference model of resolution (C01/C02/C03), written from the property statements and
docsrc/developers/ffs.rst.  It never imports pedal's by_priority / merge / priority table; its only
inputs are observable attributes of the created feedback objects and the suppression list."""
from fractions import Fraction
import re

# docsrc/developers/ffs.rst "The default priority list is"
ROWS = ['highest', 'syntax', 'mistakes', 'instructor', 'algorithmic', 'runtime', 'student', 'specification',
        'positive', 'instructions', 'uncategorized', 'lowest']
OTHER_ROW = len(ROWS)
ALIASES = {'parser': 'syntax', 'verifier': 'syntax', 'analyzer': 'algorithmic', 'instructor': 'instructor'}
DEFAULT_LABEL = 'set_correct_no_errors'
NEGATIVE_CATEGORIES = ('syntax', 'runtime', 'algorithmic', 'instructor', 'specification')


class Obs:
    """Observable attributes of one feedback object, read once after creation."""

    def __init__(self, fb, index):
        self.fb = fb
        self.index = index
        self.triggered = bool(fb)
        self.category = fb.category
        self.priority = fb.priority
        self.kind = fb.kind
        self.muted = fb.muted
        self.unscored = fb.unscored
        self.label = fb.label
        self.title = fb.title
        self.message = fb.message
        self.else_message = fb.else_message
        # Location values are read by their attributes (never compared with pedal's own ==)
        from vlib.gen_report import encode_value
        self.fields = {k: encode_value(v) for k, v in fb.fields.items()} if isinstance(fb.fields, dict) else {}
        self.correct = fb.correct
        self.score = fb.score
        self.valence = fb.valence
        self.parent = fb.parent

    def delivered(self):
        return (self.title or self.label, self.message, self.label, self.category)


def observe(report):
    """Triggered feedback in creation order, then untriggered in creation order."""
    out = []
    for i, fb in enumerate(report.feedback):
        out.append(Obs(fb, i))
    for j, fb in enumerate(report.ignored_feedback):
        out.append(Obs(fb, len(report.feedback) + j))
    return out


def row_of_category(category):
    if category is None:
        return ROWS.index('uncategorized')
    c = category.lower()
    return ROWS.index(c) if c in ROWS else OTHER_ROW


def rank_interval(o):
    """(lo, hi) rank; smaller = shown first.  rank = 3*row + {high:0, medium:1, low:2}."""
    row = row_of_category(o.category)
    sub = 1
    unknown = False
    if o.priority is not None:
        p = o.priority.lower()
        p = ALIASES.get(p, p)
        if p in ROWS:
            row = ROWS.index(p)
        elif p == 'high':
            sub = 0
        elif p == 'low':
            sub = 2
        elif p == 'medium':
            sub = 1
        else:
            unknown = True
    if unknown:
        # the documentation does not say where an unknown priority word sorts: anywhere in its own row,
        # or (when the word names some other category) in the "any other category" rank
        return (3 * row - 0.5, max(3 * row, 3 * OTHER_ROW) + 2.5)
    return (3 * row + sub, 3 * row + sub)


def is_suppressed(o, sups):
    """sups: list of dicts {category,label,fields} as passed to suppress().  Returns True/False/None(ambiguous)."""
    for s in sups:
        cat, lab, fields = s['category'], s['label'], s['fields'] or {}
        if cat is not None:
            c = cat.lower()
            c = ALIASES.get(c, c)
            if o.category is None:
                if c == 'uncategorized':
                    return None
                continue
            if c != o.category.lower():
                continue
            if lab is True:
                return True
            if isinstance(lab, str) and lab.lower() == o.label.lower() and all(o.fields.get(k) == v for k, v in fields.items()):
                return True
        else:
            if lab is True:
                continue
            if lab == o.label and all(o.fields.get(k) == v for k, v in fields.items()):
                return True
    return False


def eligible(obs, sups):
    """Returns (eligible list in creation order, ambiguous flag)."""
    out = []
    amb = False
    for o in obs:
        if not o.triggered or o.muted or o.kind == 'Compliment':
            continue
        s = is_suppressed(o, sups)
        if s is None:
            amb = True
            continue
        if not s:
            out.append(o)
    return out, amb


def hides_correctness(sups):
    return any(s['category'] is not None and s['category'].lower() in ('correct', 'success') for s in sups)


def best_allowed(cands, elig):
    """Is some candidate a legitimate winner: nobody ranks strictly higher, and no exact tie created earlier?"""
    for w in cands:
        lo, hi = rank_interval(w)
        ok = True
        for e in elig:
            if e is w:
                continue
            elo, ehi = rank_interval(e)
            if ehi < lo:
                ok = False
                break
            if elo == ehi == lo == hi and e.index < w.index:
                ok = False
                break
        if ok:
            return True
    return False


SCORE_RE = re.compile(r'^([+-])?(\d+\.?\d*|\.\d+)(%)?$')     # 5, 0.25, .25, 1. (documented: "+20%" == "+.2" == .2)


def score_value(score):
    """Signed exact value of a score in one of the documented forms; None if not in the modelled forms."""
    if isinstance(score, bool):
        return None
    if isinstance(score, int):
        return Fraction(score)
    if isinstance(score, float):
        return Fraction(repr(score))
    if isinstance(score, str):
        m = SCORE_RE.match(score)
        if not m:
            return None
        v = Fraction(m.group(2))
        if m.group(3):
            v = v / 100
        return -v if m.group(1) == '-' else v
    return None


def counts_for_score(o):
    if o.unscored or o.score is None:
        return False
    negative = (o.valence == -1)
    return (o.triggered and not negative) or (not o.triggered and negative)


def expected_score(obs, sups):
    """(Fraction total, ambiguous)."""
    total = Fraction(0)
    amb = False
    for o in obs:
        s = is_suppressed(o, sups)
        if s is None:
            amb = True
            continue
        if s:
            continue
        if counts_for_score(o):
            v = score_value(o.score)
            if v is None:
                amb = True
                continue
            total += v
    return total, amb
