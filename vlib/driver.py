"""Generic driver: runs a property's strategy/enumerators against judge(), collects
violations per root-cause cell, handles known findings, shrinks, writes evidence + replay.

Exit codes: 0 = property held on everything explored (KNOWN-FINDING lines allowed),
            1 = at least one VIOLATION line, 2 = harness error / inconclusive (never VIOLATION).
"""
import argparse
import hashlib
import importlib
import json
import multiprocessing as mp
import os
import sys
import time
import traceback
import warnings

HERE = os.path.dirname(os.path.dirname(os.path.abspath(__file__)))

MODULES = {
    'C01': 'c01_resolver', 'C02': 'c02_correct', 'C03': 'c03_score', 'C04': 'c04_contain',
    'C05': 'c05_restore', 'C06': 'c06_equiv', 'C07': 'c07_assertions', 'C08': 'c08_static',
    'C09': 'c09_tifa_flow', 'C10': 'c10_cait_sound', 'C11': 'c11_cait_complete',
    'C12': 'c12_verify', 'C13': 'c13_history', 'C14': 'c14_timeout', 'C15': 'c15_io',
    'C16': 'c16_proxy', 'C17': 'c17_sections', 'C18': 'c18_tifa_total', 'C19': 'c19_types',
    'C20': 'c20_feedback',
}


class V:
    """A violation: coarse root-cause cell + human message."""
    __slots__ = ('cell', 'msg')

    def __init__(self, cell, msg):
        self.cell = cell
        self.msg = str(msg)[:2000]

    def __repr__(self):
        return 'V(%r, %r)' % (self.cell, self.msg)


class Result:
    """What judge(case) returns."""
    __slots__ = ('violations', 'nontrivial', 'classes', 'ambiguous')

    def __init__(self, violations=None, nontrivial=False, classes=(), ambiguous=0):
        self.violations = list(violations or [])
        self.nontrivial = bool(nontrivial)
        self.classes = list(classes)
        self.ambiguous = int(ambiguous)


class Task:
    """One unit of work for a worker process."""

    def __init__(self, kind, name, shards=1, examples=0, isolate=False, timeout=None, **params):
        self.kind, self.name, self.shards, self.examples = kind, name, shards, examples
        self.isolate, self.timeout, self.params = isolate, timeout, params


def case_hash(case):
    return hashlib.sha1(json.dumps(case, sort_keys=True, default=repr).encode('utf8', 'replace')).hexdigest()[:16]


def derive_seed(seed, *parts):
    h = hashlib.sha256(repr((seed,) + parts).encode()).digest()
    return int.from_bytes(h[:8], 'big')


def load_module(pid):
    return importlib.import_module('checks.' + MODULES[pid])


class CaseTimeout(BaseException):
    pass


def _alarm(signum, frame):
    raise CaseTimeout()


def quiet_worker():
    warnings.simplefilter('ignore')
    try:   # a worker never outlives the check that started it
        import ctypes
        ctypes.CDLL(None).prctl(1, 9)      # PR_SET_PDEATHSIG, SIGKILL
    except Exception:
        pass
    # coverage (used by pedal's 'coverage' tracer style) writes a data file in the cwd: give each worker its own
    covdir = os.path.join(HERE, '.work', 'cov_%s' % os.environ.get('VERIF_RUN_ID', '0'))
    os.makedirs(covdir, exist_ok=True)
    os.environ['COVERAGE_FILE'] = os.path.join(covdir, 'cov.%d' % os.getpid())
    import atexit

    def _rm():
        try:
            os.remove(os.environ['COVERAGE_FILE'])
        except OSError:
            pass
    atexit.register(_rm)
    try:
        import resource
        lim = int(os.environ.get('VERIF_WORKER_MEM_GB', '6')) << 30
        resource.setrlimit(resource.RLIMIT_AS, (lim, lim))
    except Exception:
        pass
    try:
        import signal
        signal.signal(signal.SIGALRM, _alarm)
    except Exception:
        pass
    try:
        devnull = os.open(os.devnull, os.O_WRONLY)
        os.dup2(devnull, 2)  # student stderr / deprecation noise
    except OSError:
        pass


# --------------------------------------------------------------------------------------
# per-case execution (optionally isolated in a forked child)

def _judge_plain(mod, case):
    return mod.judge(case)


def _judge_forked(mod, case, timeout):
    """Run judge(case) in a forked child; result comes back over a pipe as JSON."""
    r, w = os.pipe()
    pid = os.fork()
    if pid == 0:
        code = 0
        try:
            os.close(r)
            try:   # the case dies with its worker (a worker that is terminated must not leave a spinning student thread behind)
                import ctypes
                ctypes.CDLL(None).prctl(1, 9)      # PR_SET_PDEATHSIG, SIGKILL
            except Exception:
                pass
            try:   # whatever the case writes to the real stdout must not reach the check's own output
                devnull = os.open(os.devnull, os.O_WRONLY)
                os.dup2(devnull, 1)
                os.dup2(devnull, 2)       # (failures of the harness itself travel through the pipe, not through stderr)
                os.dup2(os.open(os.devnull, os.O_RDONLY), 0)
            except OSError:
                pass
            try:
                res = mod.judge(case)
                payload = {'ok': True, 'v': [(v.cell, v.msg) for v in res.violations], 'n': res.nontrivial,
                           'c': res.classes, 'a': res.ambiguous}
            except BaseException as e:  # harness error inside child
                payload = {'ok': False, 'err': ''.join(traceback.format_exception(type(e), e, e.__traceback__))[-4000:]}
            data = json.dumps(payload).encode()
            off = 0
            while off < len(data):
                off += os.write(w, data[off:])
        except BaseException:
            code = 3
        finally:
            os._exit(code)
    os.close(w)
    import select
    chunks = []
    deadline = time.time() + timeout
    timed_out = False
    while True:
        left = deadline - time.time()
        if left <= 0:
            timed_out = True
            break
        ready, _, _ = select.select([r], [], [], min(left, 1.0))
        if ready:
            b = os.read(r, 65536)
            if not b:
                break
            chunks.append(b)
    os.close(r)
    if timed_out:
        try:
            os.kill(pid, 9)
        except OSError:
            pass
    os.waitpid(pid, 0)
    if timed_out:
        hung = getattr(mod, 'on_hang', None)
        if hung is not None:
            return hung(case)
        raise RuntimeError('isolated case timed out after %ss: %s' % (timeout, json.dumps(case, default=repr)[:500]))
    raw = b''.join(chunks)
    if not raw:
        died = getattr(mod, 'on_child_death', None)
        if died is not None:
            return died(case)
        raise RuntimeError('isolated case died without result: %s' % json.dumps(case, default=repr)[:500])
    payload = json.loads(raw.decode())
    if not payload['ok']:
        raise RuntimeError('judge failed in child:\n' + payload['err'])
    return Result([V(c, m) for c, m in payload['v']], payload['n'], payload['c'], payload['a'])


class Collector:
    def __init__(self, mod, task):
        self.mod, self.task = mod, task
        self.evaluations = 0
        self.nontrivial = set()
        self.classes = {}
        self.samples = []
        self.cells = {}      # cell -> {'msg','case','count','size'}
        self.ambiguous = 0

    def run_case(self, case):
        if self.task.isolate:
            res = _judge_forked(self.mod, case, self.task.timeout or 120)
        else:
            import signal
            limit = int(getattr(self.mod, 'CASE_TIME_LIMIT', 120))
            signal.alarm(limit)
            try:
                res = _judge_plain(self.mod, case)
            except CaseTimeout:
                raise RuntimeError('case exceeded %ss (harness guard, not a verdict): %s'
                                   % (limit, json.dumps(case, default=repr)[:800]))
            finally:
                signal.alarm(0)
        return self.record(case, res)

    def record(self, case, res):
        self.evaluations += 1
        self.ambiguous += res.ambiguous
        for c in res.classes:
            self.classes[c] = self.classes.get(c, 0) + 1
        if res.nontrivial:
            h = case_hash(case)
            if h not in self.nontrivial:
                self.nontrivial.add(h)
                if len(self.samples) < 3:
                    self.samples.append(case)
        for v in res.violations:
            size = len(json.dumps(case, default=repr))
            slot = self.cells.get(v.cell)
            if slot is None:
                self.cells[v.cell] = {'msg': v.msg, 'case': case, 'count': 1, 'size': size}
            else:
                slot['count'] += 1
                if size < slot['size']:
                    slot.update(msg=v.msg, case=case, size=size)
        return res

    def export(self):
        return {'evaluations': self.evaluations, 'nontrivial': sorted(self.nontrivial), 'classes': self.classes,
                'samples': self.samples, 'cells': self.cells, 'ambiguous': self.ambiguous}


def hyp_settings(n, shrink=False):
    from hypothesis import settings, HealthCheck, Phase
    phases = [Phase.generate] + ([Phase.shrink] if shrink else [])
    return settings(max_examples=n, database=None, deadline=None, derandomize=False, report_multiple_bugs=False,
                    suppress_health_check=list(HealthCheck), phases=phases, print_blob=False)


def run_task(args):
    """Executed in a worker process."""
    pid, tier, seed, task_index, shard = args
    quiet_worker()
    t0 = time.time()
    try:
        os.environ['VERIF_TIER'] = tier
        mod = load_module(pid)
        task = mod.plan(tier)[task_index]
        col = Collector(mod, task)
        if task.kind == 'hyp':
            from hypothesis import given, seed as hseed
            strat = mod.STRATEGIES[task.name](tier)
            sseed = derive_seed(seed, pid, task.name, shard)

            @hseed(sseed)
            @hyp_settings(task.examples)
            @given(strat)
            def prop(case):
                col.run_case(case)
            prop()
        elif task.kind == 'machine':
            from vlib.stateful import run_machine
            sseed = derive_seed(seed, pid, task.name, shard)
            run_machine(mod, task, col, sseed, tier)
        elif task.kind == 'enum':
            for i, case in enumerate(mod.ENUMS[task.name](tier)):
                if col.classes.get('hang', 0) >= 3:
                    break       # every hang costs a whole watchdog period: three are a verdict, the rest would only exhaust the wall budget
                if i % task.shards == shard:
                    col.run_case(case)
        elif task.kind == 'custom':
            mod.CUSTOM[task.name](tier, seed, shard, task, col)
        else:
            raise RuntimeError('unknown task kind ' + task.kind)
        out = col.export()
        out.update(ok=True, task=task_index, shard=shard, wall=time.time() - t0)
        return out
    except BaseException as e:
        return {'ok': False, 'task': task_index, 'shard': shard,
                'err': ''.join(traceback.format_exception(type(e), e, e.__traceback__))[-6000:]}


def shrink_task(args):
    """Worker: re-find and shrink a violation of `cell` with hypothesis.find; best-so-far is written to a file."""
    pid, tier, seed, task_index, shard, cell, outfile = args
    quiet_worker()
    try:
        os.environ['VERIF_TIER'] = tier
        mod = load_module(pid)
        task = mod.plan(tier)[task_index]
        if task.kind == 'machine':
            from vlib.stateful import shrink_machine
            shrink_machine(mod, task, derive_seed(seed, pid, task.name, shard), tier, cell, outfile)
            return True
        if task.kind != 'hyp':
            return None
        import random
        from hypothesis import find
        strat = mod.STRATEGIES[task.name](tier)
        best = {'size': None}

        def pred(case):
            try:
                res = _judge_forked(mod, case, task.timeout or 120) if task.isolate else mod.judge(case)
            except Exception:
                return False
            hit = [v for v in res.violations if v.cell == cell]
            if hit:
                size = len(json.dumps(case, default=repr))
                if best['size'] is None or size < best['size']:
                    best['size'] = size
                    with open(outfile + '.tmp', 'w') as f:
                        json.dump({'case': case, 'msg': hit[0].msg}, f, default=repr)
                    os.replace(outfile + '.tmp', outfile)
                return True
            return False
        sseed = derive_seed(seed, pid, task.name, shard)
        try:
            find(strat, pred, settings=hyp_settings(max(task.examples, 50), shrink=True), random=random.Random(sseed))
        except Exception:
            pass
        return True
    except BaseException:
        return None


# --------------------------------------------------------------------------------------

def load_known(pid):
    path = os.path.join(HERE, 'known_findings.json')
    if not os.path.exists(path):
        return []
    with open(path) as f:
        data = json.load(f)
    return [e for e in data.get('entries', []) if e.get('property') == pid and e.get('status') == 'open']


def cell_known(cell, known):
    for e in known:
        if cell == e['cell']:
            return e
    return None


def write_evidence(pid, payload):
    os.makedirs(os.path.join(HERE, 'evidence'), exist_ok=True)
    path = os.path.join(HERE, 'evidence', pid + '.json')
    tmp = path + '.tmp'
    with open(tmp, 'w') as f:
        json.dump(payload, f, indent=1, default=repr)
    os.replace(tmp, path)


def regress_cases(pid):
    d = os.path.join(HERE, 'regress', pid)
    out = []
    if os.path.isdir(d):
        for name in sorted(os.listdir(d)):
            if name.endswith('.json'):
                with open(os.path.join(d, name)) as f:
                    out.append((name, json.load(f)))
    return out


def run_regress(args):
    pid, tier = args
    quiet_worker()
    try:
        os.environ['VERIF_TIER'] = tier
        mod = load_module(pid)
        task = Task('regress', 'regress', isolate=getattr(mod, 'REGRESS_ISOLATE', False), timeout=120)
        col = Collector(mod, task)
        for name, rec in regress_cases(pid):
            col.run_case(rec['case'])
        out = col.export()
        out.update(ok=True, task=-1, shard=0, wall=0)
        return out
    except BaseException as e:
        return {'ok': False, 'task': -1, 'shard': 0,
                'err': ''.join(traceback.format_exception(type(e), e, e.__traceback__))[-6000:]}


def main(argv=None):
    ap = argparse.ArgumentParser()
    ap.add_argument('pid')
    ap.add_argument('--tier', default=os.environ.get('VERIF_TIER', 'quick'), choices=['quick', 'thorough'])
    ap.add_argument('--seed', type=int, default=None)
    ap.add_argument('--replay', default=None)
    ap.add_argument('--workers', type=int, default=int(os.environ.get('VERIF_WORKERS', '16')))
    ap.add_argument('--scale', type=float, default=float(os.environ.get('VERIF_SCALE', '1')),
                    help='multiply example counts (development)')
    ap.add_argument('--no-shrink', action='store_true')
    a = ap.parse_args(argv)
    pid = a.pid.upper()
    if pid not in MODULES:
        print('unknown property', pid)
        return 2
    seed = a.seed if a.seed is not None else int(os.environ.get('VERIF_SEED', '1') or 1)
    os.environ['VERIF_SCALE'] = str(a.scale)
    warnings.simplefilter('ignore')
    repo = os.environ.get('VERIF_REPO', '/repo')
    if repo not in sys.path:
        sys.path.insert(0, repo)
    known = load_known(pid)
    os.environ['VERIF_RUN_ID'] = str(os.getpid())

    if a.replay:
        return replay(pid, a.replay, known, a.tier)

    t0 = time.time()
    try:
        mod = load_module(pid)
        tasks = mod.plan(a.tier)
    except Exception:
        traceback.print_exc()
        print('HARNESS-ERROR property=%s could not load check' % pid)
        return 2
    jobs = []
    for ti, task in enumerate(tasks):
        for sh in range(task.shards):
            jobs.append((pid, a.tier, seed, ti, sh))
    ctx = mp.get_context('fork')
    budget = getattr(mod, 'WALL_BUDGET', {'quick': 900, 'thorough': 5400})[a.tier]
    results = []
    with ctx.Pool(processes=min(a.workers, max(1, len(jobs) + 1)), maxtasksperchild=1) as pool:
        pending = [pool.apply_async(run_regress, ((pid, a.tier),))]
        pending += [pool.apply_async(run_task, (j,)) for j in jobs]
        for p in pending:
            left = budget - (time.time() - t0)
            try:
                results.append(p.get(timeout=max(5, left)))
            except mp.TimeoutError:
                print('INCONCLUSIVE property=%s wall budget %ss exhausted' % (pid, budget))
                pool.terminate()
                return 2
    import shutil
    shutil.rmtree(os.path.join(HERE, '.work', 'cov_%s' % os.environ['VERIF_RUN_ID']), ignore_errors=True)
    import glob
    for stale in glob.glob(os.path.join(HERE, '.work', '*_%s.json*' % os.environ['VERIF_RUN_ID'])):
        try:
            os.remove(stale)
        except OSError:
            pass
    errors = [r for r in results if not r.get('ok')]
    if errors:
        for e in errors[:3]:
            print('HARNESS-ERROR property=%s task=%s shard=%s\n%s' % (pid, e['task'], e['shard'], e['err']))
        return 2

    evaluations = sum(r['evaluations'] for r in results)
    nontrivial = set()
    classes = {}
    samples = []
    ambiguous = 0
    cells = {}
    for r in results:
        nontrivial.update(r['nontrivial'])
        ambiguous += r['ambiguous']
        for k, v in r['classes'].items():
            classes[k] = classes.get(k, 0) + v
        for s in r['samples']:
            if len(samples) < 5 and s not in samples:
                samples.append(s)
        for cell, slot in r['cells'].items():
            cur = cells.get(cell)
            slot = dict(slot, task=r['task'], shard=r['shard'])
            if cur is None:
                cells[cell] = slot
            else:
                cnt = cur['count'] + slot['count']
                if slot['size'] < cur['size']:
                    cells[cell] = slot
                cells[cell]['count'] = cnt

    known_hits = {}
    new_cells = {}
    for cell, slot in cells.items():
        e = cell_known(cell, known)
        if e is not None:
            known_hits[cell] = slot['count']
        else:
            new_cells[cell] = slot

    # shrink new cells (bounded wall time, best-so-far)
    os.makedirs(os.path.join(HERE, 'replays', pid), exist_ok=True)
    replay_paths = {}
    if new_cells:
        shrink_budget = 45 if a.tier == 'quick' else 240
        todo = sorted(new_cells.items(), key=lambda kv: kv[0])[:8]
        procs = []
        for cell, slot in todo:
            out = os.path.join(HERE, 'replays', pid, 'shrink_%s.json' % hashlib.sha1(cell.encode()).hexdigest()[:10])
            if os.path.exists(out):
                os.remove(out)
            if not a.no_shrink and slot['task'] >= 0 and tasks[slot['task']].kind in ('hyp', 'machine'):
                p = ctx.Process(target=shrink_task, args=((pid, a.tier, seed, slot['task'], slot['shard'], cell, out),))
                p.start()
                procs.append((p, cell, out))
        tend = time.time() + shrink_budget
        for p, cell, out in procs:
            p.join(max(0.1, tend - time.time()))
            if p.is_alive():
                p.kill()
                p.join()
            if os.path.exists(out):
                try:
                    with open(out) as f:
                        best = json.load(f)
                    if len(json.dumps(best['case'])) <= new_cells[cell]['size']:
                        new_cells[cell]['case'] = best['case']
                        new_cells[cell]['msg'] = best['msg']
                except Exception:
                    pass
                os.remove(out)
        for cell, slot in sorted(new_cells.items()):
            path = os.path.join(HERE, 'replays', pid, '%s.json' % hashlib.sha1(cell.encode()).hexdigest()[:12])
            with open(path, 'w') as f:
                json.dump({'property': pid, 'cell': cell, 'message': slot['msg'], 'case': slot['case'],
                           'seed': seed, 'tier': a.tier, 'count': slot['count']}, f, indent=1, default=repr)
            replay_paths[cell] = path

    wall = time.time() - t0
    exhaustive = bool(getattr(mod, 'EXHAUSTIVE', {}).get(a.tier, False))
    evidence = {
        'property_id': pid, 'tier': a.tier, 'seed': seed, 'level': getattr(mod, 'LEVEL', 'exploration'),
        'coverage': {
            'evaluations': evaluations,
            'distinct_nontrivial': len(nontrivial),
            'rule': mod.RULE,
            'samples': samples,
            'exhaustive': exhaustive,
            'class_histogram': dict(sorted(classes.items())),
            'ambiguous_skipped': ambiguous,
            'known_finding_hits': known_hits,
            'tasks': [{'kind': t.kind, 'name': t.name, 'shards': t.shards, 'examples_per_shard': t.examples} for t in tasks],
            'violating_cells': {c: s['count'] for c, s in new_cells.items()},
        },
        'assumptions': list(getattr(mod, 'ASSUMPTIONS', [])),
        'wall_s': round(wall, 2),
        'violations': len(new_cells),
    }
    if getattr(mod, 'EXHAUSTIVE_NOTE', None):
        evidence['coverage']['exhaustive_note'] = mod.EXHAUSTIVE_NOTE
    write_evidence(pid, evidence)

    for e in known:
        print('KNOWN-FINDING: property=%s cell=%s %s (observed %d times this run)'
              % (pid, e['cell'], e.get('what', ''), known_hits.get(e['cell'], 0)))
    print('%s tier=%s seed=%d evaluations=%d distinct_nontrivial=%d ambiguous=%d wall=%.1fs'
          % (pid, a.tier, seed, evaluations, len(nontrivial), ambiguous, wall))
    if new_cells:
        for cell, slot in sorted(new_cells.items()):
            print('  cell %s x%d: %s' % (cell, slot['count'], slot['msg'][:600].replace('\n', ' | ')))
            print('VIOLATION property=%s replay=%s' % (pid, replay_paths[cell]))
        return 1
    floor = getattr(mod, 'MIN_NONTRIVIAL', {'quick': 2, 'thorough': 2})[a.tier]
    if len(nontrivial) < floor:
        print('VACUOUS property=%s only %d distinct non-trivial cases (< %d): generator needs attention'
              % (pid, len(nontrivial), floor))
        return 2
    return 0


def replay(pid, path, known, tier):
    os.environ['VERIF_TIER'] = tier
    mod = load_module(pid)
    with open(path) as f:
        rec = json.load(f)
    case = rec['case'] if isinstance(rec, dict) and 'case' in rec else rec
    quiet = getattr(mod, 'REGRESS_ISOLATE', False)
    try:
        if quiet:
            res = _judge_forked(mod, case, 120)
        else:
            res = mod.judge(case)
    except Exception:
        traceback.print_exc()
        print('HARNESS-ERROR property=%s replay failed' % pid)
        return 2
    bad = 0
    for v in res.violations:
        e = cell_known(v.cell, known)
        if e is not None:
            print('KNOWN-FINDING: property=%s cell=%s %s' % (pid, v.cell, e.get('what', '')))
        else:
            bad += 1
            print('  cell %s: %s' % (v.cell, v.msg))
    if bad:
        print('VIOLATION property=%s replay=%s' % (pid, os.path.abspath(path)))
        return 1
    print('%s replay: no violation (nontrivial=%s classes=%s)' % (pid, res.nontrivial, res.classes[:10]))
    return 0


if __name__ == '__main__':
    try:
        rc = main()
    except SystemExit:
        raise
    except BaseException:
        traceback.print_exc()
        print('HARNESS-ERROR unexpected driver failure')
        rc = 2
    sys.stdout.flush()
    os._exit(rc)
