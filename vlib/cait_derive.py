"""Derivation of CAIT patterns from a student's own program (C11) and pattern mutations (C10).

A derivation is plain data: {'frag': int, 'steps': [[kind, index, flag], ...]}.  derive() replays it on a fresh parse
and returns, per prefix of the steps, the pattern text plus what every surviving placeholder stands for."""
import ast
import re

STR_ID_FIELDS = {
    'FunctionDef': ['name'], 'AsyncFunctionDef': ['name'], 'ClassDef': ['name'], 'alias': ['name', 'asname'], 'ExceptHandler': ['name'],
    'Global': ['names'], 'Nonlocal': ['names'], 'MatchAs': ['name'], 'MatchStar': ['name'], 'MatchMapping': ['rest'], 'ImportFrom': ['module'],
    'TypeAlias': [], 'TypeVar': ['name'], 'ParamSpec': ['name'], 'TypeVarTuple': ['name'],
}
PLACEHOLDER = re.compile(r'^_.*_$')


def link(work, orig):
    """Attach to every node of `work` its twin in the structurally identical tree `orig`."""
    work._twin = orig
    for (f1, v1), (f2, v2) in zip(ast.iter_fields(work), ast.iter_fields(orig)):
        if isinstance(v1, list):
            for a, b in zip(v1, v2):
                if isinstance(a, ast.AST):
                    link(a, b)
        elif isinstance(v1, ast.AST):
            link(v1, v2)


def fragments(tree):
    """Candidate fragments of a program: the module, every statement, and every non-trivial expression."""
    out = [tree]
    for node in ast.walk(tree):
        if isinstance(node, ast.stmt):
            out.append(node)
    for node in ast.walk(tree):
        if isinstance(node, ast.expr) and not isinstance(node, (ast.Name, ast.Constant, ast.Slice, ast.Starred)) and _in_load(node) and not _under_pattern_or_fstring(tree, node):
            out.append(node)
    return out


def _in_load(node):
    ctx = getattr(node, 'ctx', None)
    return ctx is None or isinstance(ctx, ast.Load)


_PARENTS = {}


def parents_of(tree):
    key = id(tree)
    par = {}
    for node in ast.walk(tree):
        for child in ast.iter_child_nodes(node):
            par[id(child)] = node
    return par


def _under_pattern_or_fstring(tree, node, par=None):
    par = par if par is not None else parents_of(tree)
    cur = node
    while id(cur) in par:
        cur = par[id(cur)]
        if isinstance(cur, (ast.pattern, ast.match_case, ast.JoinedStr, ast.FormattedValue)) and not isinstance(cur, ast.match_case):
            return True
        if isinstance(cur, ast.match_case):
            # inside the case pattern or guard -> excluded; inside the case body -> fine
            return False
    return False


def forbidden_identifiers(tree):
    """Identifiers that also occur in plain-string fields (def/class names, aliases, global lists ...): not renamed."""
    out = set()
    for node in ast.walk(tree):
        for f in STR_ID_FIELDS.get(type(node).__name__, []):
            v = getattr(node, f, None)
            if isinstance(v, str):
                out.add(v.split('.')[0])
            elif isinstance(v, list):
                out.update(x for x in v if isinstance(x, str))
    return out


def eligible_expressions(work):
    par = parents_of(work)
    out = []
    for node in ast.walk(work):
        if not isinstance(node, ast.expr) or not _in_load(node):
            continue
        if isinstance(node, ast.Name) and PLACEHOLDER.match(node.id):
            continue
        if isinstance(node, (ast.Starred, ast.Slice, ast.JoinedStr, ast.FormattedValue)):
            continue
        parent = par.get(id(node))
        if parent is None or isinstance(parent, (ast.pattern, ast.match_case, ast.JoinedStr, ast.FormattedValue, ast.TypeAlias)) or _under_pattern_or_fstring(work, node, par):
            continue
        if isinstance(parent, ast.keyword) and parent.arg is None:
            continue
        if isinstance(parent, (ast.Delete,)):
            continue
        out.append(node)
    return out


def eligible_identifiers(work):
    bad = forbidden_identifiers(work)
    names = []
    for node in ast.walk(work):
        if isinstance(node, ast.Name) and not PLACEHOLDER.match(node.id) and node.id not in bad and node.id not in names:
            names.append(node.id)
    return names


def droppable(work):
    out = []
    for node in ast.walk(work):
        for field in ('body', 'orelse', 'finalbody'):
            lst = getattr(node, field, None)
            if isinstance(lst, list) and len(lst) >= 2 and all(isinstance(x, ast.stmt) for x in lst):
                for i in range(len(lst)):
                    out.append((lst, i))
    return out


def replace_node(root, target, new):
    for node in ast.walk(root):
        for field, value in ast.iter_fields(node):
            if value is target:
                setattr(node, field, new)
                return True
            if isinstance(value, list):
                for i, v in enumerate(value):
                    if v is target:
                        value[i] = new
                        return True
    return False


def derive(code, derivation):
    """Returns list of stages: dict(pattern=text, vars={placeholder: original id}, exprs={placeholder: dump}, step=...)
    or None when the fragment cannot be used."""
    tree = ast.parse(code)
    frags = fragments(tree)
    frag = frags[derivation['frag'] % len(frags)]
    try:
        frag_src = ast.unparse(frag)
        work = ast.parse(frag_src)
        orig = ast.parse(frag_src)
    except Exception:
        return None
    link(work, orig)
    stages = []
    var_of, expr_of = {}, {}
    counters = {'v': 0, 'e': 0}

    def snapshot(step):
        try:
            text = ast.unparse(ast.fix_missing_locations(work))
            check = ast.parse(text)
        except Exception:
            return False
        alive = {n.id for n in ast.walk(check) if isinstance(n, ast.Name)} | {a.arg for a in ast.walk(check) if isinstance(a, ast.arg)}
        stages.append({'pattern': text, 'vars': {k: v for k, v in var_of.items() if k in alive},
                       'exprs': {k: v for k, v in expr_of.items() if k in alive}, 'step': step,
                       'fragment_kind': type(frag).__name__})
        return True
    if not snapshot(None):
        return None
    for step in derivation['steps']:
        kind, idx, flag = step
        if kind == 'wild':
            cands = eligible_expressions(work)
            if not cands:
                continue
            node = cands[idx % len(cands)]
            if flag:
                counters['e'] += 1
                name = '__e%d__' % counters['e']
                expr_of[name] = ast.dump(node._twin) if hasattr(node, '_twin') else None
                if expr_of[name] is None:
                    continue
            else:
                name = '___'
            new = ast.Name(id=name, ctx=ast.Load())
            if not replace_node(work, node, new):
                continue
        elif kind == 'rename':
            ids = eligible_identifiers(work)
            if not ids:
                continue
            old = ids[idx % len(ids)]
            counters['v'] += 1
            name = '_v%d_' % counters['v']
            var_of[name] = old
            for node in ast.walk(work):
                if isinstance(node, ast.Name) and node.id == old:
                    node.id = name
                elif isinstance(node, ast.arg) and node.arg == old:
                    node.arg = name
        elif kind == 'drop':
            cands = droppable(work)
            if not cands:
                continue
            lst, i = cands[idx % len(cands)]
            if len(lst) >= 2:
                del lst[i % len(lst)]
        if not snapshot(step):
            break
    return stages
