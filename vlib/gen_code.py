"""Program generators: corpus (code strings found in the repository and small stdlib files), G-SYNTAX (syntactically
valid programs over all Python 3.12 statement/expression kinds, not executable) and G-CS1 (typed, deterministic,
terminating CS1 programs).  Everything is produced as source text; validity is asserted with compile()."""
import ast
import os
import sys

from hypothesis import strategies as st, assume

# ---------------------------------------------------------------------------------------------------------
# corpus

_CORPUS = {}


def _repo():
    return os.environ.get('VERIF_REPO', '/repo')


def _interesting(tree):
    n = 0
    for node in ast.walk(tree):
        if isinstance(node, (ast.Assign, ast.Call, ast.FunctionDef, ast.If, ast.For, ast.While, ast.Import, ast.BinOp,
                             ast.Return, ast.ClassDef, ast.AugAssign, ast.Compare)):
            n += 1
    return n >= 2


def corpus(max_items=None, stdlib=True):
    """Deterministic list of parsable code strings: string constants in the repo's tests/examples/docs + small stdlib files."""
    key = (max_items, stdlib)
    if key in _CORPUS:
        return _CORPUS[key]
    found = []
    seen = set()

    def add(text):
        if text in seen or len(text) > 6000 or len(text) < 8 or '\x00' in text:
            return
        try:
            tree = ast.parse(text)
        except (SyntaxError, ValueError, RecursionError, MemoryError):
            return
        if not _interesting(tree):
            return
        seen.add(text)
        found.append(text)
    roots = [os.path.join(_repo(), d) for d in ('tests', 'examples', 'docsrc')]
    for root in roots:
        for dirpath, dirnames, filenames in sorted(os.walk(root)):
            dirnames.sort()
            for fn in sorted(filenames):
                if not fn.endswith('.py'):
                    continue
                path = os.path.join(dirpath, fn)
                try:
                    with open(path, encoding='utf8') as f:
                        src = f.read()
                    tree = ast.parse(src)
                except Exception:
                    continue
                if src.count('\n') <= 120 and root.endswith('examples'):
                    add(src)
                for node in ast.walk(tree):
                    if isinstance(node, ast.Constant) and isinstance(node.value, str) and ('\n' in node.value or '=' in node.value or '(' in node.value):
                        add(node.value)
                        import textwrap
                        add(textwrap.dedent(node.value).strip('\n') + '\n')
    if stdlib:
        libdir = os.path.dirname(os.__file__)
        names = sorted(n for n in os.listdir(libdir) if n.endswith('.py'))
        for n in names:
            path = os.path.join(libdir, n)
            try:
                with open(path, encoding='utf8') as f:
                    src = f.read()
            except Exception:
                continue
            if src.count('\n') <= 400:
                add(src)
    found.sort(key=lambda s: (len(s), s))
    if max_items:
        found = found[:max_items]
    _CORPUS[key] = found
    return found


def corpus_strategy(stdlib=True):
    items = corpus(stdlib=stdlib)
    return st.sampled_from(items)


# ---------------------------------------------------------------------------------------------------------
# G-SYNTAX: text-based grammar generator (valid syntax, arbitrary semantics)

NAMES = ['a', 'b', 'c', 'x', 'y', 'total', 'items', 'name', 'count', 'data']
FUNCS = ['print', 'len', 'f', 'g', 'range', 'sum', 'int', 'str', 'input', 'max', 'sorted', 'helper']
ATTRS = ['append', 'upper', 'value', 'items', 'strip', 'sort', 'n']
MODULES = ['math', 'random', 'os', 'sys', 'string', 'turtle', 'json']
BINOPS = ['+', '-', '*', '/', '//', '%', '**', '<<', '>>', '|', '^', '&', '@']
CMPOPS = ['==', '!=', '<', '<=', '>', '>=', 'is', 'is not', 'in', 'not in']
LITERALS = ['0', '1', '2', '5', '10', '5.0', '1.5', '0.5', "'a'", "'5'", "'hello'", "''", 'True', 'False', 'None', "b'a'", "b'b'",
            '2j', '...', '100', '-1', "'x y'", '3', '1.0']

_name = st.sampled_from(NAMES)
_lit = st.sampled_from(LITERALS)


@st.composite
def expr(draw, depth=2):
    if depth <= 0:
        return draw(st.one_of(_name, _lit))
    kind = draw(st.integers(0, 21))
    sub = lambda: draw(expr(depth - 1))
    if kind <= 2:
        return draw(st.one_of(_name, _lit))
    if kind == 3:
        return '(%s %s %s)' % (sub(), draw(st.sampled_from(BINOPS)), sub())
    if kind == 4:
        return '(%s %s %s)' % (sub(), draw(st.sampled_from(['and', 'or'])), sub())
    if kind == 5:
        n = draw(st.integers(1, 3))
        parts = [sub()]
        for _ in range(n):
            parts.append(draw(st.sampled_from(CMPOPS)))
            parts.append(sub())
        return '(' + ' '.join(parts) + ')'
    if kind == 6:
        return '(%s%s)' % (draw(st.sampled_from(['-', '+', '~', 'not '])), sub())
    if kind == 7:
        f = draw(st.sampled_from(FUNCS))
        args = [sub() for _ in range(draw(st.integers(0, 3)))]
        if draw(st.booleans()):
            args.append('%s=%s' % (draw(st.sampled_from(['sep', 'end', 'key', 'k'])), sub()))
        if draw(st.integers(0, 5)) == 0:
            args.append('*' + draw(_name))
        if draw(st.integers(0, 7)) == 0:
            args.append('**' + draw(_name))
        return '%s(%s)' % (f, ', '.join(args))
    if kind == 8:
        return '%s.%s(%s)' % (draw(_name), draw(st.sampled_from(ATTRS)), ', '.join(sub() for _ in range(draw(st.integers(0, 2)))))
    if kind == 9:
        return '%s.%s' % (draw(_name), draw(st.sampled_from(ATTRS)))
    if kind == 10:
        return '%s[%s]' % (draw(_name), sub())
    if kind == 11:
        return '%s[%s:%s]' % (draw(_name), draw(st.sampled_from(['', '1', 'a'])), draw(st.sampled_from(['', '-1', 'b', '2:2'])))
    if kind == 12:
        return '[%s]' % ', '.join(sub() for _ in range(draw(st.integers(0, 3))))
    if kind == 13:
        items = [sub() for _ in range(draw(st.integers(0, 3)))]
        return '(%s)' % (', '.join(items) + (',' if len(items) == 1 else ''))
    if kind == 14:
        n = draw(st.integers(0, 3))
        if n == 0:
            return '{}'
        if draw(st.booleans()):
            return '{%s}' % ', '.join('%s: %s' % (sub(), sub()) for _ in range(n))
        return '{%s}' % ', '.join(sub() for _ in range(n))
    if kind == 15:
        tgt = draw(st.sampled_from(['i', 'k', 'i, k']))
        cond = (' if %s' % sub()) if draw(st.booleans()) else ''
        body = sub()
        form = draw(st.integers(0, 3))
        if form == 0:
            return '[%s for %s in %s%s]' % (body, tgt, sub(), cond)
        if form == 1:
            return '{%s for %s in %s%s}' % (body, tgt, sub(), cond)
        if form == 2:
            return '{%s: %s for %s in %s%s}' % (body, sub(), tgt, sub(), cond)
        return 'sum(%s for %s in %s%s)' % (body, tgt, sub(), cond)
    if kind == 16:
        if draw(st.booleans()):
            # parameters (some with defaults, some starred) that the body really uses, called on the spot
            return draw(st.sampled_from(['(lambda q=1: q)(%s)', '(lambda q, r=1: q + r)(%s)', '(lambda q, *rest, r=2: (q, rest, r))(%s)',
                                         '(lambda **kw: kw)(k=%s)', '(lambda q=%s: q)()'])) % sub()
        return '(lambda %s: %s)' % (draw(st.sampled_from(['', 'q', 'q, r=1', '*q'])), sub())
    if kind == 17:
        return '(%s if %s else %s)' % (sub(), sub(), sub())
    if kind == 18:
        inner = draw(_name)
        spec = draw(st.sampled_from(['', ':>5', ':.2f', '!r', ':{%s}' % draw(_name), '=']))
        return "f'v={%s%s} {%s}'" % (inner, spec, draw(_name))
    if kind == 19:
        return '(%s := %s)' % (draw(_name), sub())
    if kind == 20:
        return '%s(%s)(%s)' % (draw(st.sampled_from(FUNCS)), sub(), sub())
    return '%s %s %s' % (sub(), draw(st.sampled_from(BINOPS[:6])), sub())


def _indent(block, n=1):
    return '\n'.join(('    ' * n + line) if line else line for line in block.split('\n'))


@st.composite
def stmt(draw, depth=2, in_func=False, in_loop=False, in_async=False, nested_func=False):
    e = lambda d=2: draw(expr(d))
    body = lambda **kw: draw(block(depth - 1, **kw))
    simple_max = 13
    kind = draw(st.integers(0, simple_max if depth <= 0 else 30))
    if kind == 0:
        return '%s = %s' % (draw(_name), e())
    if kind == 1:
        return '%s %s= %s' % (draw(_name), draw(st.sampled_from(['+', '-', '*', '/', '//', '%', '**', '|', '&'])), e())
    if kind == 2:
        return '%s: %s = %s' % (draw(_name), draw(st.sampled_from(['int', 'str', 'list[int]', 'dict[str, int]', "'Custom'"])), e())
    if kind == 3:
        return e()
    if kind == 4:
        return 'print(%s)' % ', '.join(e(1) for _ in range(draw(st.integers(0, 3))))
    if kind == 5:
        return '%s, %s = %s, %s' % (draw(_name), draw(_name), e(1), e(1))
    if kind == 6:
        return '%s = %s = %s' % (draw(_name), draw(_name), e(1))
    if kind == 7:
        mod = draw(st.sampled_from(MODULES))
        form = draw(st.integers(0, 6))
        if form == 4:
            # relative imports (a program that is part of a package): the module part is still what the tree says
            return 'from %s%s import %s' % ('.' * draw(st.integers(1, 2)), mod, draw(st.sampled_from(['sqrt', 'thing as t', '*'])))
        if form == 5:
            return 'from %s%s.sub import thing' % ('.' * draw(st.integers(1, 2)), mod)
        if form == 6:
            return 'from %s import %s' % ('.' * draw(st.integers(1, 2)), mod)
        if form == 0:
            return 'import %s' % mod
        if form == 1:
            return 'import %s as m, %s' % (mod, draw(st.sampled_from(MODULES)))
        if form == 2:
            return 'from %s import %s' % (mod, draw(st.sampled_from(['*', 'sqrt', 'randint as r', 'path, sep'])))
        return 'from %s.sub import thing' % mod
    if kind == 8:
        k = draw(st.integers(0, 6))
        if k == 0:
            return 'pass'
        if k == 1:
            return 'assert %s' % e(1)
        if k == 2:
            return 'assert %s, %s' % (e(1), e(0))
        if k == 3:
            return 'del %s' % draw(_name)
        if k == 4:
            return 'raise ValueError(%s)' % e(0)
        if k == 5:
            return 'raise'
        return 'raise KeyError(%s) from None' % e(0)
    if kind == 9:
        if in_func:
            k = draw(st.integers(0, 9))
            if k == 9 and in_async:
                return 'await %s' % e(1)
            if k >= 8 and nested_func:
                return 'nonlocal %s' % draw(st.sampled_from(['q0', 'q1']))
            if k == 0:
                return 'return'
            if k in (1, 2):
                return 'return %s' % e()
            if k == 3:
                return 'global %s' % draw(_name)
            if k == 4:
                return 'global a, b'
            if k == 5:
                return 'yield %s' % e(1)
            if k == 6:
                return '%s = yield' % draw(_name)
            if k == 7:
                return 'yield from %s' % e(1)
            return 'return %s' % e(1)
        return '%s[%s] = %s' % (draw(_name), e(1), e(1))
    if kind == 10:
        if in_loop:
            return draw(st.sampled_from(['break', 'continue']))
        return '%s.%s = %s' % (draw(_name), draw(st.sampled_from(ATTRS)), e(1))
    if kind == 11:
        return '%s.%s(%s)' % (draw(_name), draw(st.sampled_from(ATTRS)), e(1))
    if kind == 12:
        return '*%s, %s = %s' % (draw(_name), draw(_name), e(1))
    if kind == 13:
        return '%s[%s] += %s' % (draw(_name), e(0), e(1))
    # compound statements
    ctx = dict(in_func=in_func, in_loop=in_loop, in_async=in_async, nested_func=nested_func)
    if kind in (14, 15):
        out = 'if %s:\n%s' % (e(), _indent(body(**ctx)))
        for _ in range(draw(st.integers(0, 2))):
            out += '\nelif %s:\n%s' % (e(), _indent(body(**ctx)))
        if draw(st.booleans()):
            out += '\nelse:\n%s' % _indent(body(**ctx))
        return out
    if kind in (16, 17):
        lctx = dict(ctx, in_loop=True)
        tgt = draw(st.sampled_from(['i', 'k', 'i, k', '(i, (j, k))', 'item']))
        out = 'for %s in %s:\n%s' % (tgt, e(), _indent(body(**lctx)))
        if draw(st.integers(0, 4)) == 0:
            out += '\nelse:\n%s' % _indent(body(**ctx))
        return out
    if kind == 18:
        lctx = dict(ctx, in_loop=True)
        out = 'while %s:\n%s' % (e(), _indent(body(**lctx)))
        if draw(st.integers(0, 4)) == 0:
            out += '\nelse:\n%s' % _indent(body(**ctx))
        return out
    if kind in (19, 20):
        fname = draw(st.sampled_from(['f', 'g', 'helper', 'compute', 'main']))
        params = draw(st.sampled_from(['', 'q0', 'q0, q1', 'q0, q1=2', 'q0: int, q1: str = "s"', '*args', 'q0, *args, key=None, **kw',
                                       'q0, /, q1, *, q2', 'self, q0']))
        ret = draw(st.sampled_from(['', ' -> int', ' -> list[str]']))
        deco = ''.join('@%s\n' % d for d in draw(st.lists(st.sampled_from(['staticmethod', 'decorate', 'route("x")', 'functools.cache']), max_size=2)))
        is_async = draw(st.integers(0, 5)) == 0
        fctx = dict(in_func=True, in_loop=False, in_async=is_async, nested_func=in_func)
        doc = '"""Doc."""\n' if draw(st.booleans()) else ''
        inner = body(**fctx)
        return '%s%sdef %s(%s)%s:\n%s' % (deco, 'async ' if is_async else '', fname, params, ret, _indent(doc + inner))
    if kind == 21:
        cname = draw(st.sampled_from(['Thing', 'Point', 'Animal']))
        bases = draw(st.sampled_from(['', '(object)', '(Base, metaclass=Meta)', '(Animal)']))
        deco = '@dataclass\n' if draw(st.booleans()) else ''
        fields_ = 'x: int\ny: str = "a"\n' if deco else ''
        cctx = dict(in_func=False, in_loop=False, in_async=False, nested_func=False)
        return '%sclass %s%s:\n%s' % (deco, cname, bases, _indent(fields_ + body(**cctx)))
    if kind in (22, 23):
        star = draw(st.integers(0, 5)) == 0
        out = 'try:\n%s' % _indent(body(**ctx))
        n_exc = draw(st.integers(0 if not star else 1, 2))
        for i in range(n_exc):
            exc = draw(st.sampled_from(['ValueError', '(KeyError, IndexError)', 'Exception as err', 'ZeroDivisionError as z']))
            if not star and i == n_exc - 1 and draw(st.integers(0, 3)) == 0:
                out += '\nexcept:\n%s' % _indent(body(**ctx))
            else:
                out += '\nexcept%s %s:\n%s' % ('*' if star else '', exc, _indent(body(**dict(ctx, in_loop=False) if star else ctx)))
        if n_exc and draw(st.booleans()):
            out += '\nelse:\n%s' % _indent(body(**ctx))
        if n_exc == 0 or draw(st.booleans()):
            out += '\nfinally:\n%s' % _indent(body(**dict(ctx, in_loop=False)))
        return out
    if kind == 24:
        items = draw(st.sampled_from(['open(name) as fh', 'ctx()', 'open("a") as p, open("b") as q', 'lock']))
        pre = 'async ' if in_async and draw(st.booleans()) else ''
        return '%swith %s:\n%s' % (pre, items, _indent(body(**ctx)))
    if kind == 25:
        cases = []
        pats = ['0', "'a'", '[x, y]', '[x, *rest]', '{"k": v}', 'Point(x=0, y=yy)', '(1 | 2) as n', 'str() as s', 'None', '[1, 2, *_]', 'v if v > 3']
        for _ in range(draw(st.integers(1, 3))):
            cases.append('case %s:\n%s' % (draw(st.sampled_from(pats)), _indent(body(**ctx))))
        if draw(st.booleans()):
            cases.append('case _:\n%s' % _indent(body(**ctx)))
        return 'match %s:\n%s' % (e(1), _indent('\n'.join(cases)))
    if kind == 26 and in_async:
        return 'async for i in %s:\n%s' % (e(1), _indent(body(**dict(ctx, in_loop=True))))
    if kind == 27:
        return 'if %s: %s' % (e(1), draw(st.sampled_from(['pass', 'x = 1', 'print(a)'])))
    if kind == 28:
        return 'type Alias = %s' % draw(st.sampled_from(['int', 'list[int]', 'dict[str, int]']))
    if kind == 29:
        return '%s = %s  # comment %s' % (draw(_name), e(1), draw(st.sampled_from(['', 'x = 1', 'TODO'])))
    return '%s = [%s\n     for i in %s]' % (draw(_name), e(1), e(1))


@st.composite
def block(draw, depth=1, **ctx):
    n = draw(st.integers(1, 3 if depth <= 0 else 4))
    return '\n'.join(draw(stmt(depth, **ctx)) for _ in range(n))


@st.composite
def syntax_program(draw, depth=2, max_statements=8):
    n = draw(st.integers(1, max_statements))
    text = '\n'.join(draw(stmt(depth)) for _ in range(n)) + '\n'
    try:
        compile(text, 'answer.py', 'exec', flags=ast.PyCF_ONLY_AST)
        ast.parse(text)
    except (SyntaxError, ValueError, RecursionError):
        assume(False)
    return text


# ---------------------------------------------------------------------------------------------------------
# AST-level mutations of corpus programs (text in, text out; never deep-copies trees)

class _Mutator(ast.NodeTransformer):
    def __init__(self, choice, target_index):
        self.choice, self.target_index, self.i = choice, target_index, 0

    def generic_visit(self, node):
        node = super().generic_visit(node)
        hit = False
        if self.choice == 'swap_op' and isinstance(node, ast.BinOp):
            hit = self._tick()
            if hit:
                node.op = ast.Sub() if isinstance(node.op, ast.Add) else ast.Add()
        elif self.choice == 'swap_cmp' and isinstance(node, ast.Compare):
            hit = self._tick()
            if hit:
                node.ops = [ast.LtE() if isinstance(o, ast.Lt) else ast.Lt() for o in node.ops]
        elif self.choice == 'rename' and isinstance(node, ast.Name):
            hit = self._tick()
            if hit:
                node.id = node.id + '_2'
        elif self.choice == 'literal' and isinstance(node, ast.Constant) and isinstance(node.value, (int, float)) and not isinstance(node.value, bool):
            hit = self._tick()
            if hit:
                node.value = node.value + 1
        return node

    def _tick(self):
        self.i += 1
        return self.i - 1 == self.target_index


def mutate_source(text, choice, index):
    """Apply one AST-level edit; returns new source text or None."""
    try:
        tree = ast.parse(text)
    except Exception:
        return None
    if choice == 'drop_stmt':
        if len(tree.body) < 2:
            return None
        del tree.body[index % len(tree.body)]
    elif choice == 'wrap_if':
        k = index % len(tree.body) if tree.body else 0
        if not tree.body:
            return None
        tree.body[k] = ast.If(test=ast.Name(id='flag', ctx=ast.Load()), body=[tree.body[k]], orelse=[])
    else:
        m = _Mutator(choice, index % 5)
        tree = m.visit(tree)
    try:
        out = ast.unparse(ast.fix_missing_locations(tree)) + '\n'
        ast.parse(out)
        return out
    except Exception:
        return None


@st.composite
def mutated_corpus_program(draw, stdlib=False):
    text = draw(corpus_strategy(stdlib=stdlib))
    n = draw(st.integers(0, 2))
    for _ in range(n):
        out = mutate_source(text, draw(st.sampled_from(['swap_op', 'swap_cmp', 'rename', 'literal', 'drop_stmt', 'wrap_if'])),
                            draw(st.integers(0, 6)))
        if out is not None:
            text = out
    return text


def any_valid_program(stdlib=False):
    """Mix of generated G-SYNTAX programs, corpus programs and mutated corpus programs."""
    return st.one_of(syntax_program(), syntax_program(depth=1, max_statements=12), corpus_strategy(stdlib=stdlib),
                     mutated_corpus_program(stdlib=stdlib))


# comments that tools (type checkers, linters, the tokenizer's coding cookie) give a meaning to: CPython's parser itself ignores them
COMMENTS = ['# type: int', '# type: ignore', '# type: ignore[attr-defined]', '# type: (int) -> int', '#type:x', '# type:', '# type: List[str]', '# noqa', '# fmt: off',
            '# pragma: no cover', '# -*- coding: utf-8 -*-', '# -*- coding: latin-1 -*-', '# vim: set fileencoding=no_such_codec :', '#!/usr/bin/env python3',
            '# TODO', '#', '# type: greeting', '# coding=ascii é']


@st.composite
def commented_program(draw):
    lines = draw(any_valid_program(stdlib=False)).split('\n')
    for _ in range(draw(st.integers(1, 3))):
        i = draw(st.integers(0, len(lines) - 1))
        c = draw(st.sampled_from(COMMENTS))
        how = draw(st.integers(0, 2))
        if how == 0:
            lines[i] = lines[i] + '  ' + c
        elif how == 1:
            indent = lines[i][:len(lines[i]) - len(lines[i].lstrip())]
            lines.insert(i, indent + c)
        else:
            lines.insert(i, c)
    return '\n'.join(lines)


def _parses(text):
    try:
        ast.parse(text)
        return True
    except (SyntaxError, ValueError, RecursionError, MemoryError):
        return False


def valid_commented_program():
    """Programs with tool comments that are still valid Python (a comment can land inside a string or after a backslash: filtered)."""
    return commented_program().filter(_parses)
