"""Adapter between a property's Stepper (real system + reference model, driven by JSON ops) and
Hypothesis' RuleBasedStateMachine.  The machine has one rule that draws the next operation from
the stepper's state-dependent strategy; the whole history shrinks as one value and is saved as a
plain JSON op list, so replay never needs Hypothesis (judge(case) re-applies the ops)."""
import json
import os

from hypothesis import seed as hseed, strategies as st
from hypothesis.stateful import RuleBasedStateMachine, rule, run_state_machine_as_test

from vlib.driver import Result, hyp_settings


def machine_settings(task, shrink=False):
    from hypothesis import settings
    base = hyp_settings(task.examples, shrink=shrink)
    return settings(base, stateful_step_count=task.params.get('steps', 12))


def judge_ops(stepper_cls, tier, ops):
    """Replay a recorded history against a fresh stepper (used by judge / --replay / regress)."""
    stepper = stepper_cls(tier)
    viol = []
    try:
        for op in ops:
            viol += stepper.apply(op)
    finally:
        res = stepper.finish(viol)
    return res


def run_machine(mod, task, col, sseed, tier):
    stepper_cls = mod.MACHINES[task.name]

    class M(RuleBasedStateMachine):
        def __init__(self):
            super().__init__()
            self.stepper = stepper_cls(tier)
            self.ops = []
            self.viol = []

        @rule(data=st.data())
        def step(self, data):
            op = data.draw(self.stepper.op_strategy())
            self.ops.append(op)
            self.viol += self.stepper.apply(op)

        def teardown(self):
            res = self.stepper.finish(self.viol)
            col.record({'machine': task.name, 'ops': self.ops}, res)

    M.__name__ = 'Machine_%s' % task.name
    run_state_machine_as_test(hseed(sseed)(M), settings=machine_settings(task))


def shrink_machine(mod, task, sseed, tier, cell, outfile):
    stepper_cls = mod.MACHINES[task.name]
    best = {'size': None}

    class M(RuleBasedStateMachine):
        def __init__(self):
            super().__init__()
            self.stepper = stepper_cls(tier)
            self.ops = []

        @rule(data=st.data())
        def step(self, data):
            op = data.draw(self.stepper.op_strategy())
            self.ops.append(op)
            hit = [v for v in self.stepper.apply(op) if v.cell == cell]
            if hit:
                case = {'machine': task.name, 'ops': list(self.ops)}
                size = len(json.dumps(case, default=repr))
                if best['size'] is None or size < best['size']:
                    best['size'] = size
                    with open(outfile + '.tmp', 'w') as f:
                        json.dump({'case': case, 'msg': hit[0].msg}, f, default=repr)
                    os.replace(outfile + '.tmp', outfile)
                raise AssertionError(cell)

        def teardown(self):
            self.stepper.finish([])

    try:
        run_state_machine_as_test(hseed(sseed)(M), settings=machine_settings(task, shrink=True))
    except BaseException:
        pass
