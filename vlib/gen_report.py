"""G-REPORT: scenarios of feedback specs + suppressions (plain JSON), and their replay into MAIN_REPORT."""
from hypothesis import strategies as st

CATEGORIES = ['syntax', 'runtime', 'algorithmic', 'mistakes', 'specification', 'instructor', 'student',
              'style', 'system', 'positive', 'complete', 'instructions', 'uncategorized']
CATEGORY_POOL = CATEGORIES + ['Syntax', 'RUNTIME', 'Instructor', 'custom']
KINDS = ["Misconception", "Mistake", "Hint", "Constraint", "Metacognitive", "Reinforcement", "Compliment",
         "Encouragement", "Result", "Performance", "Instructional", "Meta"]
PRIORITIES = ['low', 'medium', 'high', 'highest', 'lowest'] + CATEGORIES + ['parser', 'verifier', 'analyzer',
                                                                            'HIGH', 'Low', 'SYNTAX']
UNKNOWN_PRIORITIES = ['urgent', 'whenever']
LABELS = ['alpha', 'Alpha', 'ALPHA', 'beta', 'gamma', 'delta']
TEXTS = ['m one', 'm two', 'm three', '', 'Complete', 'Great work!']
TITLES = ['T1', 'T2', 'Instructor Feedback', '']
SCORES = [0, 1, 2, 5, 0.25, 0.5, 0.1, 0.07, 1.5, '+1', '+3', '+0.25', '10%', '25%', '+50%', '+5%', '-1', '-0.5',
          '-10%', '-25%', '33%', '0.33', -2, -0.25, '7', '0.005', '+0.015', '.25', '.5', '.5%', '+.2', '-.05', '1.', '+1.%',
          1e-05, -2e-05, 0.00009, 3.5e-07, 1e16, 2.5e+17,     # floats whose str() has an exponent
          10.0, 100.0, -20.0, 3.0, 110.0, 0.30000000000000004]     # whole floats, and one with many digits
PARENTS = [None, 1, 2, 'g']
FIELD_KEYS = ['k', 'n']
FIELD_VALUES = [1, 2, 'x', '@L3', '@L5']      # '@L<n>' stands for pedal's Location(n) (cases stay plain JSON)


def decode_fields(fields):
    from pedal.core.location import Location
    return {k: Location(int(v[2:])) if isinstance(v, str) and v.startswith('@L') else v for k, v in fields.items()}


def encode_value(v):
    if type(v).__name__ == 'Location':
        rest = (v.col, v.end_line, v.end_col, v.filename)
        return '@L%s' % v.line if rest == (None, None, None, None) else '@L%s%r' % (v.line, rest)
    return v

CTORS = ['Feedback', 'explain', 'gently', 'compliment', 'give_partial', 'set_correct', 'guidance', 'system_error',
         'log', 'subclass']


# score strings the documented grammar does not cover (the "=N" and "^N" forms are announced in pedal/resolvers/simple.py but not
# implemented): resolve() may reject the report (ValueError) - but if it delivers a result, that result obeys the properties
BAD_SCORES = ['=0%', '^50%', 'abc', '=0']
_SCORE = st.sampled_from(SCORES * 8 + BAD_SCORES)      # about one score in a hundred


def fields_strategy():
    return st.dictionaries(st.sampled_from(FIELD_KEYS), st.sampled_from(FIELD_VALUES), max_size=2)


_PRIORITY = st.one_of(st.sampled_from(PRIORITIES), st.sampled_from(['low', 'high', 'highest', 'lowest']),
                      st.sampled_from(UNKNOWN_PRIORITIES))


def _spec_for(ctor, score_bias, correct_bias):
    optional = {
        'label': st.sampled_from(LABELS),
        'category': st.sampled_from(CATEGORY_POOL),
        'priority': _PRIORITY,
        'kind': st.sampled_from(KINDS + ['Compliment']),
        'valence': st.sampled_from([-1, 0, 1]),
        'muted': st.booleans(),
        'unscored': st.booleans(),
        'correct': st.booleans(),
        'activate': st.booleans(),
        'title': st.sampled_from(TITLES),
        'else_message': st.sampled_from(TEXTS),
        'fields': fields_strategy(),
        'parent': st.sampled_from(PARENTS[1:]),
    }
    required = {}
    if ctor == 'give_partial':
        required['value'] = st.sampled_from(SCORES)
    elif score_bias:
        required['score'] = _SCORE
        required['valence'] = st.sampled_from([None, -1, 0, 1])
        del optional['valence']
    else:
        optional['score'] = _SCORE
    if ctor in ('explain', 'gently', 'guidance', 'compliment', 'log'):
        required['message'] = st.sampled_from(TEXTS)
    elif ctor in ('Feedback', 'subclass'):
        optional['message'] = st.sampled_from(TEXTS)
        optional['message_template'] = st.sampled_from(TEXTS)
    if ctor == 'log':
        del optional['label'], optional['activate']
    return st.fixed_dictionaries({'ctor': st.just(ctor), 'kw': st.fixed_dictionaries(required, optional=optional)})


_UNIT = st.fixed_dictionaries({
    'ctor': st.just('unit_test'),
    'kw': st.fixed_dictionaries({
        'cases': st.lists(st.tuples(st.integers(0, 3), st.booleans()).map(list), min_size=1, max_size=4),
        'score': st.sampled_from([None, '+10%', '20%', '+1', '+4', '30%', '0.5']),
        'partial_credit': st.sampled_from([False, True, True, '5%', '+2', 'list']),
    })})
UNIT_STUDENT = 'def add(a, b):\n    return a + b\n'
UNIT_ARGS = [[1, 2], [0, 0], [5, -5], [2.5, 2.5]]


_SPEC_CACHE = {}


def spec_strategy(score_bias=False, correct_bias=False):
    key = (score_bias, correct_bias)
    if key not in _SPEC_CACHE:
        ctors = list(CTORS)
        if correct_bias:
            ctors += ['set_correct', 'compliment', 'give_partial', 'explain', 'set_correct']
        options = [_spec_for(c, score_bias, correct_bias) for c in ctors]
        if score_bias:
            options.append(_UNIT)     # unit_test groups: muted+unscored children and a scored group object, as real graders have
        _SPEC_CACHE[key] = st.one_of(options)
    return _SPEC_CACHE[key]


def _clean_spec(spec):
    kw = {k: v for k, v in spec['kw'].items() if not (k == 'valence' and v is None)}
    return {'ctor': spec['ctor'], 'kw': kw}


_SUP_LABELS = LABELS + ['explain', 'set_correct', 'log', 'Feedback', 'gently']
_SUP_CATS = CATEGORY_POOL + ['parser', 'verifier', 'analyzer', 'ALGORITHMIC', 'Analyzer', 'PARSER', 'Verifier']
_SUP = st.one_of(
    st.fixed_dictionaries({'category': st.sampled_from(_SUP_CATS), 'label': st.just(True), 'fields': st.none()}),
    st.fixed_dictionaries({'category': st.sampled_from(_SUP_CATS), 'label': st.sampled_from(_SUP_LABELS),
                           'fields': st.one_of(st.none(), fields_strategy())}),
    st.fixed_dictionaries({'category': st.none(), 'label': st.sampled_from(_SUP_LABELS),
                           'fields': st.one_of(st.none(), fields_strategy(), fields_strategy())}),
    st.fixed_dictionaries({'category': st.sampled_from(['correct', 'success']), 'label': st.just(True),
                           'fields': st.none()}),
    # targeted: built from the attributes of the i-th created feedback object, so that it (nearly) always hits
    st.fixed_dictionaries({'target': st.integers(0, 7),
                           'form': st.sampled_from(['category', 'category+label', 'category+label+fields', 'label',
                                                    'label+fields']),
                           'swapcase': st.booleans(), 'spoil_field': st.booleans()}),
    st.fixed_dictionaries({'target': st.integers(0, 7),
                           'form': st.sampled_from(['category+label', 'category+label+fields', 'label',
                                                    'label+fields']),
                           'swapcase': st.booleans(), 'spoil_field': st.booleans()}),
)


def suppression_strategy():
    return _SUP


def scenario_strategy(max_feedback=8, max_sup=4, score_bias=False, correct_bias=False,
                      resolvers=('simple', 'full', 'sectional')):
    return st.fixed_dictionaries({
        'specs': st.lists(spec_strategy(score_bias, correct_bias).map(_clean_spec), max_size=max_feedback),
        'sups': st.lists(_SUP, max_size=max_sup),
        'sup_pos': st.lists(st.integers(0, max_feedback), min_size=max_sup, max_size=max_sup),
        'resolver': st.sampled_from(list(resolvers)),
    }, optional={
        # the report was already resolved before (results discarded): with the default key, or with an instructor's own priority key
        'earlier': st.lists(st.sampled_from(['simple', 'full', 'simple-reversed-key', 'full-reversed-key']), min_size=1, max_size=2),
        # the report works with feedback pools and the class of one feedback carries a pool override of its rank
        'pool_override': st.fixed_dictionaries({'index': st.integers(0, 7), 'field': st.sampled_from(['priority', 'priority', 'category']),
                                                'value': st.sampled_from(['low', 'high', 'highest', 'lowest', 'syntax', 'runtime', 'instructor', 'student'])}),
    })


# ------------------------------------------------------------------------------------------
# replay into the real report

_SUBCLASS_CACHE = {}


def _make_subclass(class_attrs):
    from pedal.core.feedback import Feedback
    key = tuple(sorted((k, repr(v)) for k, v in class_attrs.items()))
    if key not in _SUBCLASS_CACHE:
        ns = dict(class_attrs)
        _SUBCLASS_CACHE[key] = type('instructor_check', (Feedback,), ns)
    return _SUBCLASS_CACHE[key]


CLASS_LEVEL = ('category', 'priority', 'kind', 'valence', 'muted', 'unscored', 'correct', 'title', 'score',
               'message_template', 'else_message')


def build_feedback(spec):
    """Create the feedback described by spec in MAIN_REPORT.  Returns None; raises whatever pedal raises."""
    from pedal.core import commands as C
    from pedal.core.feedback import Feedback
    ctor, kw = spec['ctor'], dict(spec['kw'])
    if 'fields' in kw:
        kw['fields'] = decode_fields(kw['fields'])
    if ctor == 'unit_test':
        from pedal.assertions.commands import unit_test
        tests = []
        for idx, ok in kw['cases']:
            args = UNIT_ARGS[idx % len(UNIT_ARGS)]
            expected = args[0] + args[1]
            tests.append((list(args), expected if ok else expected + 1))
        pc = kw['partial_credit']
        if pc == 'list':
            pc = ['%d%%' % (i + 1) for i in range(len(tests))]
        return unit_test('add', *tests, score=kw['score'], partial_credit=pc)
    if ctor == 'Feedback':
        return Feedback(**kw)
    if ctor == 'subclass':
        attrs = {k: kw.pop(k) for k in list(kw) if k in CLASS_LEVEL}
        return _make_subclass(attrs)(**kw)
    if ctor == 'give_partial':
        value = kw.pop('value')
        return C.give_partial(value, **kw)
    if ctor == 'log':
        message = kw.pop('message')
        return C.log(message, **kw)
    if ctor in ('explain', 'gently', 'guidance', 'compliment'):
        message = kw.pop('message')
        return getattr(C, ctor)(message, **kw)
    return getattr(C, ctor)(**kw)


def concrete_suppression(s, created):
    """Turn a targeted suppression into the (category, label, fields) actually passed to suppress()."""
    if 'target' not in s:
        return s
    objs = [o for o in created if o is not None]
    if not objs:
        return None
    fb = objs[s['target'] % len(objs)]
    form = s['form']
    cat = fb.category if 'category' in form else None
    if 'category' in form and cat is None:
        return None
    label = True
    if 'label' in form:
        label = fb.label.swapcase() if s['swapcase'] else fb.label
    if cat is not None and s['swapcase']:
        cat = cat.swapcase()
    fields = None
    if 'fields' in form:
        fields = {k: encode_value(v) for k, v in fb.fields.items() if k in FIELD_KEYS}
        if s['spoil_field']:
            loc = [k for k, v in fields.items() if isinstance(v, str) and v.startswith('@L')]
            if loc:
                fields[loc[0]] = '@L3' if fields[loc[0]] != '@L3' else '@L5'      # the same kind of value, another place
            else:
                fields['k'] = 'other'
    return {'category': cat, 'label': label, 'fields': fields}


def replay_scenario(case):
    """Clears MAIN_REPORT and replays the scenario.
    Returns (list of (spec index, exception) for constructors that raised, concrete suppression list)."""
    from pedal.core.report import MAIN_REPORT
    from pedal.core.commands import suppress
    MAIN_REPORT.full_clear()
    if any(spec['ctor'] == 'unit_test' for spec in case['specs']):
        from pedal.core.commands import contextualize_report
        from pedal.sandbox.commands import run
        import pedal.assertions  # noqa: registers the tool
        contextualize_report(UNIT_STUDENT)
        run()
    raised = []
    concrete = []
    sups_at = {}
    late = []
    for s, p in zip(case['sups'], case['sup_pos']):
        if 'target' in s:
            late.append(s)
        else:
            sups_at.setdefault(min(p, len(case['specs'])), []).append(s)

    def issue(s):
        concrete.append(s)
        suppress(s['category'], s['label'], decode_fields(s['fields']) if s['fields'] is not None else None)

    created = []
    for i, spec in enumerate(case['specs']):
        for s in sups_at.get(i, []):
            issue(s)
        before = len(MAIN_REPORT.feedback) + len(MAIN_REPORT.ignored_feedback)
        nf = len(MAIN_REPORT.feedback)
        try:
            build_feedback(spec)
        except Exception as e:
            raised.append((i, e))
        if len(MAIN_REPORT.feedback) > nf:
            created.append(MAIN_REPORT.feedback[-1])
        elif len(MAIN_REPORT.feedback) + len(MAIN_REPORT.ignored_feedback) > before:
            created.append(MAIN_REPORT.ignored_feedback[-1])
        else:
            created.append(None)
    for s in sups_at.get(len(case['specs']), []):
        issue(s)
    for s in late:
        c = concrete_suppression(s, created)
        if c is not None:
            issue(c)
    return raised, concrete
