"""C11 - CAIT finds every occurrence that exists by construction."""
import ast

from hypothesis import strategies as st

from vlib.driver import Result, Task, V
from vlib import gen_code as G
from vlib import gen_cs1 as CS1
from vlib import cait_derive as D
from checks.c01_resolver import scale

ID = 'C11'
LEVEL = 'exploration'
RULE = ('Program from G-CS1 / G-SYNTAX / repository corpus; a pattern is derived from the program itself by a generated '
        'derivation: choose the whole program, any statement (any depth) or a sub-expression, then apply 0-5 steps from '
        '{replace a sub-expression by ___ or __eN__, rename an identifier consistently to _vN_, drop a sibling statement}. '
        'Oracle (by construction): every stage of the derivation (which also checks that generalising never loses the '
        'match) has >= 1 match, and some match binds every surviving _vN_ to the original identifier and every __eN__ to '
        'the original sub-expression (ast.dump). Non-trivial: derivation has >= 2 effective steps or the fragment sits '
        'below depth 2. Distinct = SHA-1 of (program, derivation).')
ASSUMPTIONS = ['identifiers that also occur in plain-string AST fields (def/class names, import aliases, global lists, except-as '
               'names, match captures) are not renamed',
               'expression wildcards are placed in any Load-context expression position except inside f-strings, match-case '
               'patterns/guards, type aliases, starred/keyword-unpacking arguments, slices and del targets',
               'only placeholders that survive into the final pattern are checked']

_steps = st.lists(st.tuples(st.sampled_from(['wild', 'wild', 'rename', 'rename', 'drop', 'drop']), st.integers(0, 40), st.booleans()).map(list), min_size=1, max_size=5)


# other texts offered to CAIT on the same report between the stages (some do not parse): what was matched before must not matter
_history = st.lists(st.sampled_from(['x = (1\n', 'def f(:\n', 'y = 2\nprint(y)\n', '', 'for i in range(3):\n    print(i)\n', 'class A:\n    pass\n']),
                    min_size=1, max_size=3)


def cases(tier):
    programs = st.one_of(CS1.cs1_program(max_statements=6, risk=False).map(lambda p: p['code'][len(CS1.PRELUDE):]),
                         G.syntax_program(depth=2, max_statements=5), G.corpus_strategy(stdlib=False), G.syntax_program(depth=1, max_statements=8),
                         G.syntax_program(depth=1, max_statements=1), G.expr(2).map(lambda e: e + '\n'), G.valid_commented_program())
    return st.fixed_dictionaries({'code': programs, 'derivation': st.fixed_dictionaries({'frag': st.integers(0, 60), 'steps': _steps})},
                                 optional={'history': _history, 'via': st.sampled_from(['main', 'section', 'section-verified']), 'own_report': st.booleans()})


_flat_stmt = st.one_of(
    st.tuples(st.sampled_from('abcd'), st.sampled_from(['0', '0', '1'])).map(lambda t: '%s = %s' % t),
    st.tuples(st.sampled_from('abcd'), st.sampled_from('abcd')).map(lambda t: '%s = %s' % t),
    st.tuples(st.sampled_from('abcd'), st.sampled_from('abcd'), st.sampled_from('abcd')).map(lambda t: '%s = %s + %s' % t),
    st.sampled_from('abcd').map(lambda v: 'print(%s)' % v),
    st.sampled_from(['setup', 'log', 'reset']).map(lambda f: '%s()' % f),
    st.tuples(st.sampled_from(['setup', 'log', 'abs']), st.sampled_from('abcd')).map(lambda t: 'print(%s(%s))' % t))


def flat_cases(tier):
    """Repetitive straight-line programs: many sibling statements that look alike, patterns made by dropping siblings and renaming
    several identifiers - the situation in which sibling-order bookkeeping and placeholder conflicts interact."""
    programs = st.lists(_flat_stmt, min_size=4, max_size=8).map(lambda l: '\n'.join(l) + '\n')
    steps = st.lists(st.tuples(st.sampled_from(['drop', 'drop', 'rename', 'rename', 'rename', 'wild']), st.integers(0, 40), st.booleans()).map(list),
                     min_size=2, max_size=6)
    return st.fixed_dictionaries({'code': programs, 'derivation': st.fixed_dictionaries({'frag': st.just(0), 'steps': steps})},
                                 optional={'history': _history})


# small programs in which a parameter placeholder meets default values / star parameters inside a commutative operation
CORNER_PROGRAMS = ["b = 2\ny = (lambda a=b: a)(1) + 1\n", "k = 3\ndef f(a, b=k):\n    return a + b\nz = f(1) + k\n", "y = (lambda x=1: x)(2) + 1\n", "y = 2 * (lambda a, b=3: a + b)(1)\n", "def f(a, b=2):\n    return a + b\nz = f(1) + f(2, b=3)\n",
                   "g = (lambda *args, **kw: len(args) + len(kw))(1, k=2) + 0\n", "def h(p, /, q=1, *, r=2):\n    return p + q * r\nprint(h(1) + h(2, 3, r=4))\n"]


def corner_cases(tier):
    for code in CORNER_PROGRAMS:
        for frag in range(6):
            for kind in ('rename', 'wild'):
                for idx in range(5):
                    yield {'code': code, 'derivation': {'frag': frag, 'steps': [[kind, idx, True]]}}
                    yield {'code': code, 'derivation': {'frag': frag, 'steps': [['rename', idx, True], [kind, idx + 1, False]]}}


ENUMS = {'corner': corner_cases}
STRATEGIES = {'derived': cases, 'flat': flat_cases}


def depth_of(tree, target_src):
    return 0


def judge(case):
    from pedal.core.report import MAIN_REPORT
    from pedal.cait.cait_api import find_matches
    code = case['code']
    try:
        ast.parse(code)
    except Exception:
        return Result([], False, ['unparsable'], ambiguous=1)
    try:
        stages = D.derive(code, case['derivation'])
    except RecursionError:
        stages = None
    if not stages:
        return Result([], False, ['no-derivation'], ambiguous=1)
    viol, classes = [], ['fragment=' + stages[0]['fragment_kind']]
    MAIN_REPORT.full_clear()
    history = case.get('history') or []
    if history:
        classes.append('with-history')
    via = case.get('via')
    if via is not None and '#####' in code:
        via = None
    if via is not None:
        # the program is not handed to CAIT: it is the submission (verified by the Source tool), or the current section of one
        from pedal.core.commands import contextualize_report
        from pedal.source import verify, separate_into_sections, next_section
        classes.append('via=' + via)
        try:
            if via == 'main':
                contextualize_report(code)
                verify()
            else:
                contextualize_report('first = 1\nprint(first, "prologue")\n##### Part 1\n' + code)
                verify()
                separate_into_sections()
                verify()
                next_section()
                if via == 'section-verified':
                    verify()
            if MAIN_REPORT.submission.main_code.strip('\n') != code.strip('\n') or any(f.category == 'syntax' for f in MAIN_REPORT.feedback):
                via = None        # (the text is not what this case means to present, e.g. a form feed that splits differently)
        except Exception:
            via = None
        if via is None:
            MAIN_REPORT.full_clear()
            classes[-1] = 'via-not-applicable'
    rep = MAIN_REPORT
    if via is None and case.get('own_report'):
        # the instructor keeps this program in a report of its own (report=...), next to the main one
        from pedal.core.report import Report
        rep = Report()
        classes.append('own-report')
        if history:
            # ... whose own main file is one of the other texts (it may not even parse) and has been looked at already
            from pedal.core.commands import contextualize_report
            try:
                contextualize_report(history[0], report=rep)
                find_matches('print(___)', report=rep)
            except Exception:
                pass
    for k, stage in enumerate(stages):
        pattern = stage['pattern']
        if history:
            try:
                find_matches('print(___)', history[k % len(history)], report=rep)
            except Exception:
                pass
        try:
            if via is None:
                matches = find_matches(pattern, code, report=rep)
            else:
                matches = find_matches(pattern)      # the program is the report's current main code
        except BaseException as e:
            import traceback
            tb = traceback.extract_tb(e.__traceback__)[-1]
            viol.append(V('C11|find_matches-raises:%s@%s' % (type(e).__name__, tb.name),
                          'find_matches raised %s: %s (%s:%s)\npattern:\n%s\nprogram:\n%s' % (type(e).__name__, e, tb.filename, tb.lineno, pattern, code[:400])))
            break
        step = stage['step']
        stepkind = 'self-match' if step is None else step[0] + ('-named' if step[0] == 'wild' and step[2] else '')
        if not matches:
            viol.append(V('C11|no-match|%s|fragment=%s' % (stepkind, stage['fragment_kind'] if k == 0 else 'derived'),
                          'pattern derived from the program by %d step(s) (last: %s) has no match\npattern:\n%s\nprogram:\n%s'
                          % (k, step, pattern, code[:500])))
            break
        good = False
        detail = ''
        for m in matches:
            ok = True
            for ph, orig_id in stage['vars'].items():
                try:
                    got = m[ph].id
                except Exception as e:
                    got = 'missing(%s)' % type(e).__name__
                if got != orig_id:
                    ok = False
                    detail = '%s bound to %r, replaced identifier was %r' % (ph, got, orig_id)
                    break
            if ok:
                for ph, dump in stage['exprs'].items():
                    try:
                        got = ast.dump(m[ph].astNode)
                    except Exception as e:
                        got = 'missing(%s)' % type(e).__name__
                    if got != dump and got != 'Expr(value=%s)' % dump:   # a statement-level placeholder is bound to the Expr statement
                        ok = False
                        detail = '%s bound to %s, replaced sub-expression was %s' % (ph, got[:120], dump[:120])
                        break
            if ok:
                good = True
                break
        if not good:
            which = 'var' if detail.startswith('_v') else 'expr'
            viol.append(V('C11|binding|%s|%s' % (which, stepkind), 'none of the %d matches binds the placeholders to what they replaced (%s)\npattern:\n%s\nprogram:\n%s'
                          % (len(matches), detail, pattern, code[:500])))
            break
    effective = len(stages) - 1
    classes.append('steps=%d' % effective)
    for s in stages[1:]:
        classes.append('step=' + s['step'][0])
    MAIN_REPORT.full_clear()
    nontrivial = effective >= 2 or stages[0]['fragment_kind'] not in ('Module',)
    return Result(viol, nontrivial, classes)


def plan(tier):
    n = 500 if tier == 'quick' else 20000
    return [Task('hyp', 'derived', shards=8, examples=scale(n)), Task('hyp', 'flat', shards=7, examples=scale(3 * n)), Task('enum', 'corner', shards=1)]
