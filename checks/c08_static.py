"""C08 - static ensure_*/prevent_* checks agree with the student's actual syntax tree."""
import ast

from hypothesis import strategies as st

from vlib.driver import Result, Task, V
from vlib import gen_code as G
from checks.c01_resolver import scale

ID = 'C08'
LEVEL = 'exploration'
RULE = ('Programs from G-SYNTAX (all Python 3.12 statement/expression kinds), the repository corpus (code strings in tests/'
        'examples/docs) and AST-mutated corpus programs; for each program the complete documented operator table (10 '
        'comparison, 2 boolean, 13 binary, 2 unary symbols), call names, literals (present + near misses 5/5.0/True/"5"), '
        'literal types, every occurring AST node kind + absent ones and module names are queried with thresholds count-1..'
        'count+1. Oracle: counts by a plain ast.walk of ast.parse(source) (interval where the statement leaves a choice). '
        'Non-trivial: a query with count >= 1 judged at a threshold within +-1 of the count, or a near-miss literal present. '
        'Distinct = SHA-1 of the program text.')
ASSUMPTIONS = ['+ and - : unary uses may or may not be counted (interval); augmented assignments may or may not be counted',
               'chained comparisons with a repeated operator: between #Compare nodes and #operator occurrences',
               'constants inside f-strings / match patterns may or may not count as literals (interval)',
               'import thresholds other than the defaults are not generated (docstring: parameter is ignored)',
               'negative number literals and None are not queried as literals']

COMPARE = {'==': ast.Eq, '!=': ast.NotEq, '<': ast.Lt, '<=': ast.LtE, '>': ast.Gt, '>=': ast.GtE, 'is': ast.Is,
           'is not': ast.IsNot, 'in': ast.In, 'not in': ast.NotIn}
BOOLOPS = {'and': ast.And, 'or': ast.Or}
BINOPS = {'+': ast.Add, '-': ast.Sub, '*': ast.Mult, '/': ast.Div, '//': ast.FloorDiv, '%': ast.Mod, '**': ast.Pow,
          '<<': ast.LShift, '>>': ast.RShift, '|': ast.BitOr, '^': ast.BitXor, '&': ast.BitAnd, '@': ast.MatMult}
UNARY = {'not': ast.Not, '~': ast.Invert}
UNARY_TWIN = {'+': ast.UAdd, '-': ast.USub}
NODE_KINDS = sorted({c.__name__ for c in ast.stmt.__subclasses__() + ast.expr.__subclasses__()} |
                    {'comprehension', 'arguments', 'keyword', 'alias', 'ExceptHandler', 'arg', 'withitem', 'match_case'})


OTHER_SUBMISSION = 'import os\ntotal = 0\nfor n in [1, 2.5, "three"]:\n    total = total + len(str(n)) * 2\nprint(total > 3 and not False)\n'


def op_count(tree, symbol):
    """(lo, hi, locations) for an operator symbol."""
    locs = set()
    if symbol in COMPARE:
        cls = COMPARE[symbol]
        nodes = ops = 0
        for n in ast.walk(tree):
            if isinstance(n, ast.Compare):
                k = sum(1 for o in n.ops if type(o) is cls)
                if k:
                    nodes += 1
                    ops += k
                    locs.add((n.lineno, n.col_offset))
        return nodes, ops, locs
    if symbol in BOOLOPS:
        cls = BOOLOPS[symbol]
        c = 0
        for n in ast.walk(tree):
            if isinstance(n, ast.BoolOp) and type(n.op) is cls:
                c += 1
                locs.add((n.lineno, n.col_offset))
        return c, c, locs
    if symbol in BINOPS:
        cls = BINOPS[symbol]
        b = aug = un = 0
        for n in ast.walk(tree):
            if isinstance(n, ast.BinOp) and type(n.op) is cls:
                b += 1
                locs.add((n.lineno, n.col_offset))
            elif isinstance(n, ast.AugAssign) and type(n.op) is cls:
                aug += 1
                locs.add((n.lineno, n.col_offset))
            elif symbol in UNARY_TWIN and isinstance(n, ast.UnaryOp) and type(n.op) is UNARY_TWIN[symbol]:
                un += 1
                locs.add((n.lineno, n.col_offset))
        return b, b + aug + un, locs
    cls = UNARY[symbol]
    c = 0
    for n in ast.walk(tree):
        if isinstance(n, ast.UnaryOp) and type(n.op) is cls:
            c += 1
            locs.add((n.lineno, n.col_offset))
    return c, c, locs


def call_count(tree, name):
    locs = set()
    c = 0
    for n in ast.walk(tree):
        if isinstance(n, ast.Call):
            f = n.func
            if (isinstance(f, ast.Name) and f.id == name) or (isinstance(f, ast.Attribute) and f.attr == name):
                c += 1
                locs.add((n.lineno, n.col_offset))
    return c, c, locs


def _soft_constants(tree):
    """ids of Constant nodes whose status as 'literal' is debatable (f-string pieces, match patterns, annotations)."""
    soft = set()
    for n in ast.walk(tree):
        if isinstance(n, (ast.JoinedStr, ast.FormattedValue, ast.MatchValue, ast.MatchSingleton, ast.match_case)):
            for m in ast.walk(n):
                if isinstance(m, ast.Constant):
                    soft.add(id(m))
    return soft


def literal_count(tree, lit):
    soft = _soft_constants(tree)
    lo = hi = 0
    lines = set()
    for n in ast.walk(tree):
        if isinstance(n, ast.Constant) and type(n.value) is type(lit) and n.value == lit:
            hi += 1
            lines.add(n.lineno)
            if id(n) not in soft:
                lo += 1
    return lo, hi, lines


def literal_type_count(tree, t):
    lines = set()
    c = 0
    for n in ast.walk(tree):
        if t in (int, float, str, bool):
            if isinstance(n, ast.Constant) and type(n.value) is t:
                c += 1
                lines.add(n.lineno)
        elif t is list and isinstance(n, ast.List):
            c += 1
            lines.add(n.lineno)
        elif t is dict and isinstance(n, ast.Dict):
            c += 1
            lines.add(n.lineno)
    return c, c, lines


def kind_count(tree, name):
    locs = set()
    c = 0
    for n in ast.walk(tree):
        if type(n).__name__ == name:
            c += 1
            if hasattr(n, 'lineno'):
                locs.add((n.lineno, n.col_offset))
    return c, c, locs


def module_names(tree):
    names = set()
    for n in ast.walk(tree):
        if isinstance(n, ast.Import):
            names.update(a.name for a in n.names)
        elif isinstance(n, ast.ImportFrom) and n.module:
            names.add(n.module)
    return names


def judge(case):
    from pedal.core.commands import contextualize_report
    from pedal.core.report import MAIN_REPORT
    import pedal.assertions.static as S
    from pedal.cait.find_node import find_operation, find_function_calls
    from pedal.cait.cait_api import find_asts
    code = case['code']
    tree = ast.parse(code)
    MAIN_REPORT.full_clear()
    viol, classes = [], []
    root_kw, find_root, find_code = {}, None, None
    if case.get('explicit'):
        # the questions are asked about an explicitly given program (root=parse_program(code) / student_code=code) while the report
        # holds, and has verified, a different submission
        from pedal.source import verify
        from pedal.cait.cait_api import parse_program
        contextualize_report(OTHER_SUBMISSION)
        verify()
        find_root = parse_program(code)
        root_kw, find_code = {'root': find_root}, code
        classes.append('explicit-program')
    elif case.get('verified_other'):
        # the submission is `code`, but the Source tool was last asked to verify some other text: questions without root= are still about `code`
        from pedal.source import verify
        contextualize_report(code)
        verify(OTHER_SUBMISSION)
        MAIN_REPORT.feedback.clear()
        classes.append('other-text-verified')
    else:
        contextualize_report(code)
    state = {'nontrivial': False, 'amb': 0}

    def fired(fn, *args, **kw):
        MAIN_REPORT.feedback.clear()
        MAIN_REPORT.ignored_feedback.clear()
        fb = fn(*args, **dict(root_kw, **kw))
        return bool(fb), fb

    def thresholds(lo, hi, ensure_fn, prevent_fn, arg, cell, desc, lines, kwname=('at_least', 'at_most')):
        """Check ensure/prevent at thresholds around the count."""
        for n in sorted({0, 1} if hi == 0 else {max(lo - 1, 0), lo, hi, hi + 1}):
            for kind, fn, kwn in (('ensure', ensure_fn, kwname[0]), ('prevent', prevent_fn, kwname[1])):
                if fn is None:
                    continue
                if hi == 0 and ((kind == 'ensure' and n == 0) or (kind == 'prevent' and n == 1)):
                    continue   # absent item: only the default thresholds
                if kind == 'ensure':
                    exp_lo, exp_hi = lo < n, hi < n      # fires iff count < n
                else:
                    exp_lo, exp_hi = lo > n, hi > n      # fires iff count > n
                if exp_lo != exp_hi:
                    state['amb'] += 1
                    continue
                try:
                    got, fb = fired(fn, arg, **{kwn: n})
                except Exception as e:
                    viol.append(V('%s|%s-raises:%s' % (cell, kind, type(e).__name__), '%s_%s(%s=%d) raised %r on\n%s' % (kind, desc, kwn, n, e, code[:300])))
                    return
                if hi >= 1 and abs(n - lo) <= 1:
                    state['nontrivial'] = True
                if got != exp_lo:
                    viol.append(V('%s|%s-%s' % (cell, kind, 'missed' if exp_lo else 'false-alarm'),
                                  '%s_%s(%s=%d): fired=%r but the syntax tree has %s occurrence(s); program:\n%s'
                                  % (kind, desc, kwn, n, got, lo if lo == hi else '%d..%d' % (lo, hi), code[:400])))
                    return
                if got and kind == 'prevent' and lines and fb.location is not None:
                    ok_lines = {l if isinstance(l, int) else l[0] for l in lines}
                    if fb.location.line not in ok_lines:
                        viol.append(V('%s|line' % cell, 'prevent_%s reports line %r; occurrences are on lines %r'
                                      % (desc, fb.location.line, sorted(ok_lines))))
                        return

    def found(nodes, lo, hi, locs, cell, desc):
        try:
            nodes = list(nodes)
        except Exception as e:
            viol.append(V('%s|find-raises:%s' % (cell, type(e).__name__), '%s raised %r' % (desc, e)))
            return
        if not (lo <= len(nodes) <= hi):
            viol.append(V('%s|find-count' % cell, '%s returned %d nodes, the syntax tree has %s; program:\n%s'
                          % (desc, len(nodes), lo if lo == hi else '%d..%d' % (lo, hi), code[:400])))
            return
        for nd in nodes:
            pos = (getattr(nd, 'lineno', None), getattr(nd, 'col_offset', None))
            if pos[0] is not None and locs and pos not in locs:
                viol.append(V('%s|find-node' % cell, '%s returned a node at %r which is not an occurrence (%r)' % (desc, pos, sorted(locs)[:5])))
                return

    # operators: the complete documented table
    present_ops = 0
    if any(isinstance(n, ast.Compare) and len(n.ops) > 1 for n in ast.walk(tree)):
        classes.append('chained-comparison')
    if any(isinstance(n, ast.AugAssign) for n in ast.walk(tree)):
        classes.append('augmented-assignment')
    for sym in list(COMPARE) + list(BOOLOPS) + list(BINOPS) + list(UNARY):
        lo, hi, locs = op_count(tree, sym)
        present_ops += hi > 0
        if lo >= 2:
            classes.append('operator-repeated')
        cell = 'C08|operator=%s' % sym
        thresholds(lo, hi, S.ensure_operation, S.prevent_operation, sym, cell, 'operation(%r)' % sym, locs)
        found(find_operation(sym, find_root), lo, hi, locs, cell, 'find_operation(%r)' % sym)
    classes.append('operators-present=%s' % ('0' if not present_ops else '1-3' if present_ops <= 3 else '4-8' if present_ops <= 8 else '9+'))
    # calls
    names = sorted({(n.func.id if isinstance(n.func, ast.Name) else n.func.attr) for n in ast.walk(tree)
                    if isinstance(n, ast.Call) and isinstance(n.func, (ast.Name, ast.Attribute))})[:6]
    if names:
        classes.append('calls-present')
    for name in names + ['never_called_fn']:
        lo, hi, locs = call_count(tree, name)
        if lo >= 2:
            classes.append('call-repeated')
        thresholds(lo, hi, S.ensure_function_call, S.prevent_function_call, name, 'C08|call', 'function_call(%r)' % name, locs)
        found(find_function_calls(name, root=find_root), lo, hi, locs, 'C08|call', 'find_function_calls(%r)' % name)
    # literals: present values + near misses
    present = []
    for n in ast.walk(tree):
        if isinstance(n, ast.Constant) and type(n.value) in (int, float, str, bool, bytes) and n.value not in present:
            if not (isinstance(n.value, (int, float)) and n.value != n.value):
                present.append(n.value)
    queries = []
    for v in present[:5]:
        queries.append(v)
        if type(v) is int:
            queries += [float(v), str(v)] + ([bool(v)] if v in (0, 1) else [])
        elif type(v) is float and v == int(v) and abs(v) < 1e6:
            queries.append(int(v))
        elif type(v) is bool:
            queries.append(int(v))
        elif type(v) is str and v.isdigit() and len(v) < 6:
            queries.append(int(v))
        elif type(v) is bytes:
            queries.append(v + b'x')
    seen = []
    for q in queries + [424242, 'absent literal']:
        if any(type(q) is type(s) and q == s for s in seen):
            continue
        seen.append(q)
        if isinstance(q, (int, float)) and q < 0:
            continue
        lo, hi, lines = literal_count(tree, q)
        near = any(type(p) is not type(q) and p == q for p in present if not isinstance(p, (str, bytes)) or isinstance(q, type(p)))
        if near:
            state['nontrivial'] = True
            classes.append('near-miss-literal')
        tname = type(q).__name__
        cell = 'C08|literal|%s%s' % (tname, '|near-miss' if near and lo == 0 else '')
        thresholds(lo, hi, S.ensure_literal, S.prevent_literal, q, cell, 'literal(%r)' % (q,), lines)
    # literal types
    for t in (int, float, str, bool, list, dict):
        lo, hi, lines = literal_type_count(tree, t)
        thresholds(lo, hi, S.ensure_literal_type, S.prevent_literal_type, t, 'C08|literal_type=%s' % t.__name__,
                   'literal_type(%s)' % t.__name__, lines)
    # node kinds
    kinds_present = sorted({type(n).__name__ for n in ast.walk(tree)} & set(NODE_KINDS))
    absent = [k for k in NODE_KINDS if k not in kinds_present]
    import zlib
    h = zlib.crc32(code.encode('utf8', 'replace'))
    if len(kinds_present) > 12:
        kinds_present = [kinds_present[(h + 7 * i) % len(kinds_present)] for i in range(12)]
    absent = [absent[(h + i) % len(absent)] for i in range(2)] if absent else []
    for k in sorted(set(kinds_present)) + absent:
        lo, hi, locs = kind_count(tree, k)
        thresholds(lo, hi, S.ensure_ast, S.prevent_ast, k, 'C08|ast', 'ast(%r)' % k, locs)
        found(find_asts(k, find_code), lo, hi, locs, 'C08|ast', 'find_asts(%r)' % k)
    # modules
    mods = module_names(tree)
    for m in sorted(mods)[:4] + ['not_imported_mod']:
        has = m in mods
        try:
            e, _ = fired(S.ensure_import, m)
            p, _ = fired(S.prevent_import, m)
        except Exception as ex:
            viol.append(V('C08|import|raises:%s' % type(ex).__name__, 'ensure/prevent_import(%r) raised %r' % (m, ex)))
            continue
        if has:
            state['nontrivial'] = True
            classes.append('import-present')
        if e != (not has):
            viol.append(V('C08|import|ensure', 'ensure_import(%r) fired=%r but imported=%r; program:\n%s' % (m, e, has, code[:300])))
        if p != has:
            viol.append(V('C08|import|prevent', 'prevent_import(%r) fired=%r but imported=%r; program:\n%s' % (m, p, has, code[:300])))
    MAIN_REPORT.full_clear()
    out, cells = [], set()
    for v in viol:
        if v.cell not in cells:
            cells.add(v.cell)
            out.append(v)
    return Result(out, state['nontrivial'], sorted(set(classes)), 1 if state['amb'] else 0)


def programs(tier):
    return st.builds(lambda code, how: dict({'code': code}, **({how: True} if how else {})),
                     st.one_of(G.any_valid_program(stdlib=False), G.any_valid_program(stdlib=False), G.valid_commented_program()),
                     st.sampled_from([None, None, 'explicit', 'verified_other']))


def corpus_cases(tier):
    for code in G.corpus(stdlib=(tier == 'thorough')):
        yield {'code': code}
    # programs without a single statement, and tiny ones: asked about directly, and explicitly while the report holds another program
    for code in ['', '\n', '# TODO: write the program\n', '\n\n# nothing yet\n', 'pass\n', "'''only a docstring'''\n", '...\n', 'x = 1\n', 'print()\n']:
        for how in (None, 'explicit', 'verified_other'):
            yield dict({'code': code}, **({how: True} if how else {}))


STRATEGIES = {'programs': programs}
ENUMS = {'corpus': corpus_cases}


def plan(tier):
    n = 120 if tier == 'quick' else 5000
    return [Task('hyp', 'programs', shards=10, examples=scale(n)), Task('enum', 'corpus', shards=6)]
