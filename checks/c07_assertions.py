"""C07 - runtime assertions pass only when the asserted relation really holds."""
import itertools
import re

from hypothesis import strategies as st

from vlib.driver import Result, Task, V
from checks.c01_resolver import scale

ID = 'C07'
LEVEL = 'exploration'
RULE = ('Per assertion family (equal, ordering x4, in, is, contains_subset, length x6, is_instance, regex, true/false, none, '
        'type, output x3, unit_test) a complete table of operand pairs from ~45 values (ints, floats around the tolerance, '
        'bools, None, strings differing by case/punctuation, lists, tuples, dicts, sets, nested) is enumerated; every case '
        'runs the assertion AND its negation in all four wrappings (raw/raw, proxy/raw, raw/proxy, proxy/proxy; proxies '
        'come from call("ident", v) in a real sandbox, error operands from call("boom")), equality also with swapped '
        'arguments and both exact_strings modes. Hypothesis adds nested values. Oracle: the Python relation evaluated on '
        'the operands as received (proxy -> _actual_value); relation raising or error operand => failing feedback. '
        'Non-trivial: an operand is a container, a float within 2x delta of the other, a string differing from the other '
        'only by case/punctuation, or an error; distinct = SHA-1 of the JSON case.')
ASSUMPTIONS = ['identity assertions are compared across wrappings only for values whose identity survives repr-marshalling '
               '(None, bools, small ints)',
               'normalised string equality is judged only through guaranteed consequences (equal strings pass; different '
               'multisets of lower-cased alphanumerics fail; case / punctuation-for-punctuation / boundary punctuation '
               'variants agree)',
               'isinstance cells mixing int and float are not judged (pedal merges the numeric tower on purpose)',
               'float comparisons within 1e-9 of the tolerance are skipped']
EXHAUSTIVE_NOTE = 'the per-family operand tables are enumerated completely; nested values are sampled'
DELTA = 0.001

STUDENT = '''
def ident(x):
    return x
def boom(*args):
    raise ValueError("student failure")
def printer(text):
    print(text, end="")
    return 1
def add(a, b):
    return a + b
def half(a):
    return a / 2
def shout(s):
    return s.upper()
def broken(a):
    return [][a]
def quitter():
    import sys
    sys.exit(3)
'''

VALUES = ['0', '1', '-1', '5', '3', '5.0', '5.0004', '5.002', '4.9995', '50000000.0', '50000000.04', '50000000', '3000000001.5', '3000000000',
          '[1, 50000000.0]', '[1, 50000000.04]', '1e-05', '0.0009', '0.30000000000000004', '0.3', 'True', 'False', 'None',
          "'a'", "'A'", "'a.'", "'Hello, World!'", "'hello world'", "'hello  world'", "'abc'", "'b'", "''", "'5'",
          '[]', '[1, 2]', '[1, 2.0004]', "['a', 'B']", "['A', 'b']", '[[1], [2]]', '[[1], [2.0005]]', '(1, 2)', "(1, 'a')", '()',
          "{'a': 1}", "{'a': 1.0004}", '{}', '{1, 2}', 'set()', "{'k': [1, {'z': 2.0}]}", "{'k': [1, {'z': 2.0003}]}",
          '(1+0j)', "[1, 'a', None]", 'frozenset({1})', '{3}', "float('nan')", "float('inf')", "-float('inf')",
          "{'A': 1}", "{1.0: 'x'}", "{1.0004: 'x'}", '{1.0, 1.0004}', '{1.0, 2.0}', "b'a'", "b'b'", 'Rec(1)', 'Rec(2)', 'Rec(1.0004)', 'Rec(1.0)']
# ints Python refuses to print (the factorial of a few thousand has that many digits): still comparable
HUGE = ['10 ** 5000', '10 ** 5000 + 1', '5', "'a'", 'None', '[10 ** 5000]', '[10 ** 5000 + 1]', 'True']
IDENTITY_STABLE = {'None', 'True', 'False', '0', '1', '-1', '5', '3'}
LENGTHS = ['0', '1', '2', '3', "'a'", 'None', '2.0']
CLASSES = ['int', 'float', 'str', 'list', 'tuple', 'dict', 'set', 'bool', 'type(None)', 'object', '(list, tuple)']
REGEXES = ["'a'", "'^h'", "'l+o'", "'['", "'\\\\d+'", "'World'", "''"]
import dataclasses as _dc


@_dc.dataclass
class Rec:
    """An instructor-side dataclass used as an operand (instances are handed to student code as they are)."""
    a: float


ERR = '!error'
# other operands that are errors: a call that ended in sys.exit(), an exception object that never went through the sandbox
ERR_EXIT, ERR_RAW = '!exit', '!raw-exception'
ERRORS = (ERR, ERR_EXIT, ERR_RAW)

BINARY_FAMILIES = {
    # name: (positive assertion, negative assertion or None, relation on received operands)
    'equal': ('assert_equal', 'assert_not_equal', None),
    'less': ('assert_less', None, lambda a, b: a < b),
    'less_equal': ('assert_less_equal', None, lambda a, b: a <= b),
    'greater': ('assert_greater', None, lambda a, b: a > b),
    'greater_equal': ('assert_greater_equal', None, lambda a, b: a >= b),
    'in': ('assert_in', 'assert_not_in', lambda a, b: a in b),
    'is': ('assert_is', 'assert_is_not', lambda a, b: a is b),
    'contains_subset': ('assert_contains_subset', 'assert_not_contains_subset', lambda a, b: all(n in b for n in a)),
    'length_equal': ('assert_length_equal', 'assert_length_not_equal', lambda a, b: len(a) == b),
    'length_less': ('assert_length_less', None, lambda a, b: len(a) < b),
    'length_less_equal': ('assert_length_less_equal', None, lambda a, b: len(a) <= b),
    'length_greater': ('assert_length_greater', None, lambda a, b: len(a) > b),
    'length_greater_equal': ('assert_length_greater_equal', None, lambda a, b: len(a) >= b),
    'is_instance': ('assert_is_instance', 'assert_not_is_instance', lambda a, b: isinstance(a, b)),
    'regex': ('assert_regex', 'assert_not_regex', lambda a, b: re.search(a, str(b)) is not None),
}
# pairs of ordering assertions that are each other's negation on evaluable operands
ORDER_NEGATION = {'less': 'greater_equal', 'less_equal': 'greater', 'greater': 'less_equal', 'greater_equal': 'less'}
UNARY_FAMILIES = {
    'true': ('assert_true', 'assert_false', lambda a: bool(a)),
    'is_none': ('assert_is_none', 'assert_is_not_none', lambda a: a is None),
}
TYPE_TABLE = [  # (value, spec source, expected relation)
    ("'abc'", 'str', True), ("'abc'", 'int', False), ('[1, 2]', 'list', True), ('[1, 2]', "'list[int]'", True),
    ('[1, 2]', "'list[str]'", False), ("(1, 'a')", "'tuple[int, str]'", True), ("(1, 'a')", "'tuple[str, int]'", False),
    ("{'a': 1}", 'dict', True), ('True', 'bool', True), ("'x'", 'bool', False), ('None', 'str', False), ('5', 'str', False),
    ('5', 'int', True), ('5.5', 'float', True), ("'5'", 'float', False), ('[1, 2]', 'tuple', False), ("(1, 'a')", 'tuple', True),
    ("(1, 'a')", 'list', False), ('[]', 'list', True), ("['a']", "'list[str]'", True),
    # the value is an error (a failed call, a call that ended in sys.exit(), an exception object): neither form holds
    ('!error', 'int', 'error'), ('!exit', 'int', 'error'), ('!raw-exception', 'str', 'error'), ('!exit', "'list[int]'", 'error'),
]

_state = {}


def sandbox():
    if 'sb' not in _state:
        from pedal.core.commands import contextualize_report
        from pedal.core.report import MAIN_REPORT
        from pedal.sandbox.commands import run, get_sandbox
        import pedal.assertions  # registers the tool
        MAIN_REPORT.full_clear()
        contextualize_report(STUDENT)
        run()
        _state['sb'] = get_sandbox()
    return _state['sb']


def fresh():
    from pedal.core.report import MAIN_REPORT
    sb = sandbox()
    MAIN_REPORT.feedback.clear()
    MAIN_REPORT.ignored_feedback.clear()
    if len(sb._context) > 300:
        sb.clear_context()
        sb._next_context_id = 0
    sb.clear_output()
    return sb


def make_operand(src, wrapped, sb):
    """Returns (operand as passed to the assertion, value as the assertion receives it, is_error)."""
    from pedal.sandbox.result import is_sandbox_result
    if src == ERR:
        r = sb.call('boom')
        return r, None, True
    if src == ERR_EXIT:
        r = sb.call('quitter')
        return r, None, True
    if src == ERR_RAW:
        return ValueError('an exception object as operand'), None, True
    raw = eval(src, {'__builtins__': __builtins__, 'Rec': Rec})
    if not wrapped:
        return raw, raw, False
    r = sb.call('ident', raw)
    if not is_sandbox_result(r) or sb.exception is not None:
        raise RuntimeError('could not proxy %s: %r' % (src, sb.exception))
    return r, r._actual_value, False


def run_assertion(name, args, kwargs):
    """('silent'|'failing'|'raises:<Type>'|'inconsistent', detail)"""
    import pedal.assertions.runtime as R
    from pedal.core.report import MAIN_REPORT
    fn = getattr(R, name)
    if kwargs.get('_testcase'):
        # the unittest-style front end: PedalTestCase().assertLessEqual(a, b, msg)
        from pedal.assertions.unittest import PedalTestCase
        camel = 'assert' + ''.join(w.capitalize() for w in name.split('_')[1:])
        kwargs = {k: v for k, v in kwargs.items() if k != '_testcase'}
        if not hasattr(PedalTestCase, camel):
            fn = getattr(R, name)
        else:
            method = getattr(PedalTestCase(), camel)
            fn = lambda *a, **k: method(*a, 'a unittest-style message', **k)
    try:
        fb = fn(*args, **kwargs)
    except Exception as e:
        return 'raises:' + type(e).__name__, repr(e)[:200]
    triggered = bool(fb)
    in_fb = any(f is fb for f in MAIN_REPORT.feedback)
    if triggered and in_fb:
        return 'failing', ''
    if not triggered and not in_fb:
        return 'silent', getattr(fb, '_status', '')
    return 'inconsistent', 'bool=%r in report.feedback=%r' % (triggered, in_fb)


def tri_and(values):
    out = True
    for v in values:
        if v is False:
            return False
        if v is None:
            out = None
    return out


def alnum_multiset(s):
    return sorted(ch for ch in s.lower() if ch.isalnum())


def ref_equal(a, b, exact, delta=DELTA):
    """Reference equality: True / False / None (not decided by the documented guarantees)."""
    num = (int, float)
    if isinstance(a, num) and isinstance(b, num):
        if isinstance(a, float) or isinstance(b, float):
            if a == b:
                return True          # also two infinities of the same sign
            d = abs(a - b)
            if d != d:
                return None
            if abs(d - delta) < 1e-9:
                return None
            return d < delta
        return a == b
    if isinstance(a, str) and isinstance(b, str):
        if exact:
            return a == b
        if a == b:
            return True
        if alnum_multiset(a) != alnum_multiset(b):
            return False
        return None
    if type(a) in (list, tuple) and type(a) is type(b):
        if len(a) != len(b):
            return False
        return tri_and(ref_equal(x, y, exact, delta) for x, y in zip(a, b))
    if type(a) in (set, frozenset) and type(a) is type(b):
        if a == b:
            return True
        # every element needs a partner on the other side, in both directions (pedal's documented leniency applies element-wise)
        return tri_and([_has_partner(x, b, exact, delta) for x in a] + [_has_partner(y, a, exact, delta) for y in b])
    if isinstance(a, dict) and isinstance(b, dict):
        verdicts = [_has_partner(k, b, exact, delta) for k in a] + [_has_partner(k, a, exact, delta) for k in b]
        keys = tri_and(verdicts)
        if keys is not True:
            return keys
        out = []
        for k in a:
            partners = [k] if k in b else [k2 for k2 in b if ref_equal(k, k2, exact, delta) is not False]
            if len(partners) != 1:
                return None          # which value belongs to this key is not determined
            out.append(ref_equal(a[k], b[partners[0]], exact, delta))
        return tri_and(out)
    if _dc.is_dataclass(a) and _dc.is_dataclass(b) and not isinstance(a, type) and not isinstance(b, type):
        fa, fb = _dc.fields(a), _dc.fields(b)
        if type(a).__name__ != type(b).__name__ or [f.name for f in fa] != [f.name for f in fb]:
            return False
        return tri_and(ref_equal(getattr(a, f.name), getattr(b, f.name), exact, delta) for f in fa)
    try:
        return bool(a == b)
    except Exception:
        return None


def _has_partner(x, others, exact, delta):
    """True / False / None: is some element of `others` equal to x under the reference."""
    try:
        if x in others:
            return True
    except TypeError:
        pass
    verdicts = [ref_equal(x, y, exact, delta) for y in others]
    if any(v is True for v in verdicts):
        return True
    return None if any(v is None for v in verdicts) else False


def operand_kind(src):
    if src in ERRORS:
        return 'error'
    v = eval(src)
    return type(v).__name__


def judge_binary(case):
    fam = case['family']
    pos, neg, rel = BINARY_FAMILIES[fam]
    a_src, b_src = case['a'], case['b']
    exact = case.get('exact', False)
    kwargs = {'exact_strings': exact} if fam == 'equal' else {}
    delta = DELTA
    if 'delta' in case:
        # the documented tolerance as the caller sets it; None asks for the default
        kwargs['delta'] = case['delta']
        delta = DELTA if case['delta'] is None else case['delta']
    if case.get('present'):
        # keywords that only shape the message must not change the verdict
        kwargs.update({'explanation': {'explanation': 'because I say so'}, 'context': {'context': 'in this context'}, 'assertion': {'assertion': 'my wording'},
                       'silent-context': {'context': False, 'assertion': False}, 'testcase': {'_testcase': True}, 'after-clear-context': {}, 'kept-across-clear-context': {}}[case['present']])
    viol, classes = [], ['family=' + fam] + (['presentation-kwargs'] if case.get('present') else [])
    outcomes = {}
    relation_by_wrap = {}
    for wrap in ('rr', 'pr', 'rp', 'pp'):
        if fam in ('is_instance',) and wrap[1] == 'p':
            continue  # a class is not marshalled through repr
        sb = fresh()
        if case.get('present') == 'after-clear-context':
            sb.clear_context()         # the instructor dropped the execution history: assertions on new results still work
        a_op, a_val, a_err = make_operand(a_src, wrap[0] == 'p', sb)
        b_op, b_val, b_err = make_operand(b_src, wrap[1] == 'p', sb)
        if case.get('present') == 'kept-across-clear-context':
            sb.clear_context()         # ... or drops the history while it still holds results of it: they are still values
        if a_err or b_err:
            expect = 'error'
        elif fam == 'equal':
            expect = ref_equal(a_val, b_val, exact, delta)
        else:
            try:
                expect = bool(rel(a_val, b_val))
            except Exception:
                expect = 'error'
        if fam == 'is_instance' and expect != 'error':
            if isinstance(a_val, (int, float)) and b_src in ('int', 'float'):
                expect = None
        relation_by_wrap[wrap] = expect
        p_out = run_assertion(pos, (a_op, b_op), kwargs)
        outcomes[(pos, wrap)] = p_out
        n_out = None
        if neg:
            fresh_fb()
            n_out = run_assertion(neg, (a_op, b_op), kwargs)
            outcomes[(neg, wrap)] = n_out
        if fam in ORDER_NEGATION:
            fresh_fb()
            negname = BINARY_FAMILIES[ORDER_NEGATION[fam]][0]
            n_out = run_assertion(negname, (a_op, b_op), {})
        s_out = None
        if fam == 'equal':
            fresh_fb()
            s_out = run_assertion(pos, (b_op, a_op), kwargs)
        kind = 'error' if (a_err or b_err) else '%s,%s' % (type(a_val).__name__, type(b_val).__name__)
        base = 'C07|%s' % pos
        desc = '%s(%s, %s) wrap=%s%s%s' % (pos, a_src, b_src, wrap, ' exact_strings' if exact else '', ' delta=%r' % (case['delta'],) if 'delta' in case else '')
        for name, out in ((pos, p_out), (neg, outcomes.get((neg, wrap))), ('swapped ' + pos, s_out)):
            if out is not None and (out[0].startswith('raises') or out[0] == 'inconsistent'):
                viol.append(V('C07|%s|%s|%s' % (name.replace('swapped ', ''), out[0], 'error-operand' if expect == 'error' and (a_err or b_err) else kind),
                              '%s: %s %s' % (desc, out[0], out[1])))
        if expect == 'error':
            which = 'error-operand' if (a_err or b_err) else 'relation-raises'
            if p_out[0] == 'silent':
                viol.append(V('%s|silent-on-%s' % (base, which), '%s: operand is an error / relation cannot be evaluated, '
                                                                 'but the assertion stayed silent (%s)' % (desc, p_out[1])))
            if neg and outcomes[(neg, wrap)][0] == 'silent':
                viol.append(V('C07|%s|silent-on-%s' % (neg, which), '%s (negated form %s): operand is an error / relation '
                                                                    'cannot be evaluated, but it stayed silent (%s)'
                              % (desc, neg, outcomes[(neg, wrap)][1])))
            if fam in ORDER_NEGATION and n_out is not None and n_out[0] == 'silent' and which == 'error-operand':
                pass  # reported under that assertion's own family
        elif expect is True:
            if p_out[0] == 'failing':
                viol.append(V('%s|fails-but-relation-holds|%s' % (base, kind), '%s: relation holds but the assertion failed' % desc))
            if neg and outcomes[(neg, wrap)][0] == 'silent':
                viol.append(V('C07|%s|silent-but-relation-false|%s' % (neg, kind), '%s: %s stayed silent although its relation is false' % (desc, neg)))
        elif expect is False:
            if p_out[0] == 'silent':
                viol.append(V('%s|silent-but-relation-false|%s' % (base, kind), '%s: relation is false but the assertion stayed silent' % desc))
            if neg and outcomes[(neg, wrap)][0] == 'failing':
                viol.append(V('C07|%s|fails-but-relation-holds|%s' % (neg, kind), '%s: %s failed although its relation holds' % (desc, neg)))
        # negation consistency on evaluable operands
        complementary = True
        if fam in ORDER_NEGATION and expect != 'error':
            # a < b and a >= b are each other's negation only on totally ordered operands (not for sets or nan)
            try:
                complementary = bool(BINARY_FAMILIES[ORDER_NEGATION[fam]][2](a_val, b_val)) != bool(expect)
            except Exception:
                complementary = False
        if expect != 'error' and complementary and n_out is not None and p_out[0] in ('silent', 'failing') and n_out[0] in ('silent', 'failing'):
            if p_out[0] == n_out[0]:
                viol.append(V('%s|negation-both-%s|%s' % (base, 'pass' if p_out[0] == 'silent' else 'fail', kind),
                              '%s and its negated counterpart both %s' % (desc, 'pass' if p_out[0] == 'silent' else 'fail')))
        # argument order
        if s_out is not None and expect != 'error' and s_out[0] in ('silent', 'failing') and p_out[0] in ('silent', 'failing'):
            if s_out[0] != p_out[0]:
                viol.append(V('%s|argument-order|%s' % (base, '/'.join(sorted(kind.split(',')))),
                              '%s is %s but with swapped arguments it is %s' % (desc, p_out[0], s_out[0])))
    # wrapping invariance
    if fam != 'is' or (a_src in IDENTITY_STABLE and b_src in IDENTITY_STABLE):
        for name in (pos, neg):
            if not name:
                continue
            outs = {w: o[0] for (n, w), o in outcomes.items() if n == name}
            if len(set(outs.values())) > 1 and all(v in ('silent', 'failing') for v in outs.values()):
                viol.append(V('C07|%s|wrapping-dependent' % name, '%s(%s, %s)%s gives %r depending on raw/proxy wrapping'
                              % (name, a_src, b_src, ' exact_strings' if exact else '', outs)))
    nontrivial = False
    if a_src in ERRORS or b_src in ERRORS:
        nontrivial = True
    else:
        av, bv = eval(a_src), eval(b_src)
        if isinstance(av, (list, tuple, dict, set, frozenset)) or isinstance(bv, (list, tuple, dict, set, frozenset)):
            nontrivial = True
        elif isinstance(av, (int, float)) and isinstance(bv, (int, float)) and (isinstance(av, float) or isinstance(bv, float)) \
                and abs(av - bv) < 2 * DELTA:
            nontrivial = True
        elif isinstance(av, str) and isinstance(bv, str) and av != bv and alnum_multiset(av) == alnum_multiset(bv):
            nontrivial = True
    amb = sum(1 for e in relation_by_wrap.values() if e is None)
    for e in relation_by_wrap.values():
        classes.append('relation=%s' % e)
    return Result(dedupe(viol), nontrivial, classes, 1 if amb else 0)


def fresh_fb():
    from pedal.core.report import MAIN_REPORT
    MAIN_REPORT.feedback.clear()
    MAIN_REPORT.ignored_feedback.clear()


def dedupe(viol):
    seen, out = set(), []
    for v in viol:
        if v.cell not in seen:
            seen.add(v.cell)
            out.append(v)
    return out


def judge_unary(case):
    fam = case['family']
    pos, neg, rel = UNARY_FAMILIES[fam]
    viol, outs = [], {}
    for wrap in ('r', 'p'):
        sb = fresh()
        op, val, err = make_operand(case['a'], wrap == 'p', sb)
        expect = 'error' if err else bool(rel(val))
        p = run_assertion(pos, (op,), {})
        fresh_fb()
        n = run_assertion(neg, (op,), {})
        outs[wrap] = (p[0], n[0])
        kind = 'error' if err else type(val).__name__
        desc = '%s(%s) wrap=%s' % (pos, case['a'], wrap)
        for name, out in ((pos, p), (neg, n)):
            if out[0].startswith('raises') or out[0] == 'inconsistent':
                viol.append(V('C07|%s|%s|%s' % (name, out[0], kind), '%s: %s %s' % (desc, out[0], out[1])))
        if expect == 'error':
            for name, out in ((pos, p), (neg, n)):
                if out[0] == 'silent':
                    viol.append(V('C07|%s|silent-on-error-operand' % name, '%s(%s): operand is an error but the assertion stayed silent' % (name, case['a'])))
        else:
            if expect and p[0] == 'failing':
                viol.append(V('C07|%s|fails-but-relation-holds|%s' % (pos, kind), desc))
            if not expect and p[0] == 'silent':
                viol.append(V('C07|%s|silent-but-relation-false|%s' % (pos, kind), desc))
            if expect and n[0] == 'silent':
                viol.append(V('C07|%s|silent-but-relation-false|%s' % (neg, kind), desc))
            if not expect and n[0] == 'failing':
                viol.append(V('C07|%s|fails-but-relation-holds|%s' % (neg, kind), desc))
    if outs['r'] != outs['p'] and case['a'] not in ERRORS:
        viol.append(V('C07|%s|wrapping-dependent' % pos, '%s(%s): %r' % (pos, case['a'], outs)))
    nontrivial = case['a'] in ERRORS or isinstance(eval(case['a']), (list, tuple, dict, set, str))
    return Result(dedupe(viol), nontrivial, ['family=' + fam])


def judge_type(case):
    value_src, spec_src, expect = TYPE_TABLE[case['index']]
    viol = []
    for wrap in ('r', 'p'):
        sb = fresh()
        op, val, err = make_operand(value_src, wrap == 'p', sb)
        spec = eval(spec_src)
        p = run_assertion('assert_type', (op, spec), {})
        fresh_fb()
        n = run_assertion('assert_not_type', (op, spec), {})
        desc = 'assert_type(%s, %s) wrap=%s' % (value_src, spec_src, wrap)
        for name, out in (('assert_type', p), ('assert_not_type', n)):
            if out[0].startswith('raises') or out[0] == 'inconsistent':
                viol.append(V('C07|%s|%s|spec=%s' % (name, out[0], 'generic' if '[' in spec_src else 'plain'),
                              '%s: %s %s' % (desc, out[0], out[1])))
        if expect == 'error':
            for name, out in (('assert_type', p), ('assert_not_type', n)):
                if out[0] == 'silent':
                    viol.append(V('C07|%s|silent-on-error-operand' % name, desc))
            continue
        if expect and p[0] == 'failing':
            viol.append(V('C07|assert_type|fails-but-relation-holds', desc))
        if not expect and p[0] == 'silent':
            viol.append(V('C07|assert_type|silent-but-relation-false', desc))
        if expect and n[0] == 'silent':
            viol.append(V('C07|assert_not_type|silent-but-relation-false', desc))
        if not expect and n[0] == 'failing':
            viol.append(V('C07|assert_not_type|fails-but-relation-holds', desc))
    return Result(dedupe(viol), True, ['family=type'])


# ---- generated type specs --------------------------------------------------------------------------------------------------
# a type spec is nested data: 'int' | ['list', T] | ['set', T] | ['dict', K, V] | ['tuple', A, B, ...]
_LEAF_VALUES = {'int': [0, 7, -3, 12345], 'float': [2.5, -0.5, 1e9], 'str': ['', 'abc', 'Hello'], 'bool': [True, False]}
_NUMERIC = {'int', 'float', 'bool'}


def spec_text(spec):
    if isinstance(spec, str):
        return spec
    return '%s[%s]' % (spec[0], ', '.join(spec_text(x) for x in spec[1:]))


def spec_value(spec, picks, pos=[0]):
    """A value of exactly this type (containers homogeneous, non-empty)."""
    def pick(n):
        pos[0] += 1
        return picks[pos[0] % len(picks)] % n
    if isinstance(spec, str):
        vals = _LEAF_VALUES[spec]
        return vals[pick(len(vals))]
    head = spec[0]
    if head == 'list':
        return [spec_value(spec[1], picks, pos) for _ in range(1 + pick(2))]
    if head == 'set':
        return {spec_value(spec[1], picks, pos)}
    if head == 'dict':
        return {spec_value(spec[1], picks, pos): spec_value(spec[2], picks, pos)}
    return tuple(spec_value(x, picks, pos) for x in spec[1:])


def spec_relation(actual, asked):
    """True / False / None (not judged) : does a value of exactly type `actual` have the type `asked`?"""
    if isinstance(actual, str) or isinstance(asked, str):
        if isinstance(actual, str) and isinstance(asked, str):
            if actual == asked:
                return True
            return None if {actual, asked} <= _NUMERIC else False     # pedal merges parts of the numeric tower on purpose
        a_head = actual if isinstance(actual, str) else actual[0]
        k_head = asked if isinstance(asked, str) else asked[0]
        if isinstance(asked, str) and a_head == k_head:
            return True           # bare 'list' accepts any list
        return False if a_head != k_head else None
    if actual[0] != asked[0]:
        return False
    if actual[0] == 'tuple' and len(actual) != len(asked):
        return False
    parts = [spec_relation(a, k) for a, k in zip(actual[1:], asked[1:])]
    if False in parts:
        return False
    return None if None in parts else True


def judge_typegen(case):
    import typing
    actual, asked = case['actual'], case['asked']
    value = spec_value(actual, case['picks'], [0])
    value_src = repr(value)
    expect = spec_relation(actual, asked)
    if expect is None:
        return Result([], False, ['family=typegen', 'not-judged'], 1)
    text = spec_text(asked)
    spec = eval(text, {'typing': typing}) if case['form'] == 'alias' else (text if not isinstance(asked, str) or case['form'] == 'string' else eval(text))
    viol = []
    for wrap in ('r', 'p'):
        sb = fresh()
        op, val, err = make_operand(value_src, wrap == 'p', sb)
        p = run_assertion('assert_type', (op, spec), {})
        fresh_fb()
        n = run_assertion('assert_not_type', (op, spec), {})
        desc = 'assert_type(%s, %r) wrap=%s' % (value_src, spec, wrap)
        shape = 'generic' if not isinstance(asked, str) else 'plain'
        for name, out in (('assert_type', p), ('assert_not_type', n)):
            if out[0].startswith('raises') or out[0] == 'inconsistent':
                viol.append(V('C07|%s|%s|spec=%s' % (name, out[0], shape), '%s: %s %s' % (desc, out[0], out[1])))
        if expect and p[0] == 'failing':
            viol.append(V('C07|assert_type|fails-but-relation-holds|%s' % shape, desc))
        if not expect and p[0] == 'silent':
            viol.append(V('C07|assert_type|silent-but-relation-false|%s' % shape, desc))
        if expect and n[0] == 'silent':
            viol.append(V('C07|assert_not_type|silent-but-relation-false|%s' % shape, desc))
        if not expect and n[0] == 'failing':
            viol.append(V('C07|assert_not_type|fails-but-relation-holds|%s' % shape, desc))
    depth = lambda sp: 0 if isinstance(sp, str) else 1 + max(depth(x) for x in sp[1:])
    return Result(dedupe(viol), True, ['family=typegen', 'typegen-expected=%s' % expect, 'typegen-depth=%d' % depth(asked), 'typegen-form=' + case['form']])


def judge_output(case):
    """assert_output / assert_output_contains / assert_not_* on a student function that prints a known text."""
    printed, expected, exact = case['printed'], case['expected'], case['exact']
    viol = []
    sb = fresh()
    kept = case.get('kept')
    if kept == 'first':
        sb.clear_context()       # the execution asserted on is the first of the history (the instructor started over)
    execution = sb.call('printer', printed) if not case.get('error') else sb.call('boom')
    if kept:
        # the result is kept and asserted on later: other executions came in between, one of them printing just the expected text
        sb.call('printer', 'an entirely different line')
        sb.call('printer', expected)
    err = bool(case.get('error'))
    chomped = printed[:-1] if printed.endswith('\n') else printed
    if exact:
        eq = chomped == expected
    else:
        eq = True if chomped == expected else (False if alnum_multiset(chomped) != alnum_multiset(expected) else None)
    contains = (expected in chomped) if exact else (expected.lower() in chomped.lower())
    checks = [('assert_output', 'assert_not_output', eq), ('assert_output_contains', 'assert_not_output_contains', contains)]
    for pos, neg, expect in checks:
        fresh_fb()
        p = run_assertion(pos, (execution, expected), {'exact_strings': exact})
        fresh_fb()
        n = run_assertion(neg, (execution, expected), {'exact_strings': exact})
        desc = '%s(call(printer, %r), %r, exact_strings=%r)' % (pos, printed, expected, exact)
        for name, out in ((pos, p), (neg, n)):
            if out[0].startswith('raises') or out[0] == 'inconsistent':
                viol.append(V('C07|%s|%s|%s' % (name, out[0], 'error-operand' if err else 'output'), '%s: %s %s' % (desc, out[0], out[1])))
        if err:
            for name, out in ((pos, p), (neg, n)):
                if out[0] == 'silent':
                    viol.append(V('C07|%s|silent-on-error-operand' % name, '%s: the execution is an error but the assertion stayed silent' % name))
            continue
        if expect is True and p[0] == 'failing':
            viol.append(V('C07|%s|fails-but-relation-holds|output' % pos, desc))
        if expect is False and p[0] == 'silent':
            viol.append(V('C07|%s|silent-but-relation-false|output' % pos, desc))
        if expect is True and n[0] == 'silent':
            viol.append(V('C07|%s|silent-but-relation-false|output' % neg, desc))
        if expect is False and n[0] == 'failing':
            viol.append(V('C07|%s|fails-but-relation-holds|output' % neg, desc))
        if p[0] == n[0] and p[0] in ('silent', 'failing'):
            viol.append(V('C07|%s|negation-both-%s|output' % (pos, 'pass' if p[0] == 'silent' else 'fail'), desc))
    if case.get('regex') and not err:
        # the regex forms: the pattern (a string, or compiled by the instructor with flags of their own) comes first
        source = re.escape(expected)
        pattern = source if case['regex'] == 'str' else re.compile(source)
        found = re.search(source, chomped) is not None
        fresh_fb()
        p = run_assertion('assert_output_regex', (pattern, execution), {})
        fresh_fb()
        n = run_assertion('assert_not_output_regex', (pattern, execution), {})
        desc = 'assert_output_regex(%s, call(printer, %r))' % ('%r' % source if case['regex'] == 'str' else 're.compile(%r)' % source, printed)
        for name, out in (('assert_output_regex', p), ('assert_not_output_regex', n)):
            if out[0].startswith('raises') or out[0] == 'inconsistent':
                viol.append(V('C07|%s|%s|output' % (name, out[0]), '%s: %s %s' % (desc, out[0], out[1])))
        if found and p[0] == 'failing':
            viol.append(V('C07|assert_output_regex|fails-but-relation-holds|%s-pattern' % case['regex'], desc))
        if not found and p[0] == 'silent':
            viol.append(V('C07|assert_output_regex|silent-but-relation-false|%s-pattern' % case['regex'], desc))
        if found and n[0] == 'silent':
            viol.append(V('C07|assert_not_output_regex|silent-but-relation-false|%s-pattern' % case['regex'], desc))
        if not found and n[0] == 'failing':
            viol.append(V('C07|assert_not_output_regex|fails-but-relation-holds|%s-pattern' % case['regex'], desc))
    return Result(dedupe(viol), True, ['family=output'] + (['output-of-kept-result=' + kept] if kept else []) + (['output-regex=' + case['regex']] if case.get('regex') else []))


UNIT_FUNCS = {
    'add': (lambda a, b: a + b, [[1, 2], [0, 0], [-1, 1], [2.5, 2.5], ['a', 'b'], [[1], [2]]]),
    'half': (lambda a: a / 2, [[4], [1], [0], [3.0]]),
    'shout': (lambda s: s.upper(), [['ab'], ['Hello'], ['']]),
    'broken': (None, [[0], [1]]),
}


def judge_unit(case):
    """unit_test succeeds exactly when all cases pass and reports the true pass count."""
    from pedal.assertions.commands import unit_test
    from pedal.core.report import MAIN_REPORT
    sb = fresh()
    fname = case['func']
    fn, pool = UNIT_FUNCS[fname]
    tests, n_pass = [], 0
    for idx, wrong in case['cases']:
        args = pool[idx % len(pool)]
        if fn is None:
            expected = 0
            ok = False
        else:
            expected = fn(*args)
            ok = True
            if wrong:
                expected = (expected + 1) if isinstance(expected, (int, float)) else (expected * 2 + type(expected)(['x'] if isinstance(expected, list) else 'x'))
                ok = False
        n_pass += ok
        tests.append((list(args), expected))
    viol = []
    try:
        result = unit_test(fname, *tests)
    except Exception as e:
        return Result([V('C07|unit_test|raises:%s' % type(e).__name__, 'unit_test(%r, %r) raised %r' % (fname, tests, e))], True, ['family=unit_test'])
    groups = [f for f in MAIN_REPORT.feedback + MAIN_REPORT.ignored_feedback if type(f).__name__ == 'unit_test']
    all_pass = n_pass == len(tests)
    if bool(result) != all_pass:
        viol.append(V('C07|unit_test|return-value', 'unit_test(%r, %r) returned %r but %d of %d cases pass' % (fname, tests, result, n_pass, len(tests))))
    if len(groups) != 1:
        viol.append(V('C07|unit_test|group-count', '%d group objects recorded' % len(groups)))
    else:
        g = groups[0]
        if g.fields.get('success_count') != n_pass:
            viol.append(V('C07|unit_test|success_count', 'success_count=%r but %d of %d cases pass (%r)' % (g.fields.get('success_count'), n_pass, len(tests), tests)))
        if g.fields.get('total_count') != len(tests):
            viol.append(V('C07|unit_test|total_count', 'total_count=%r for %d cases' % (g.fields.get('total_count'), len(tests))))
        if bool(g) == all_pass:
            viol.append(V('C07|unit_test|group-truth', 'group triggered=%r but all_pass=%r' % (bool(g), all_pass)))
    return Result(viol, len(tests) >= 2, ['family=unit_test', 'all_pass=%s' % all_pass])


PUNCT = '.,!?;:'


def judge_strnorm(case):
    """Documented string normalisation: case, punctuation-for-punctuation and boundary punctuation/whitespace never
    change the outcome of assert_equal with exact_strings=False; identical strings always pass."""
    a, b = case['a'], case['b']
    viol = []

    def outcome(x, y):
        fresh()
        return run_assertion('assert_equal', (x, y), {})[0]
    base = outcome(a, b)
    if a == b and base != 'silent':
        viol.append(V('C07|assert_equal|fails-but-relation-holds|str,str', 'assert_equal(%r, %r) on identical strings: %s' % (a, b, base)))
    if alnum_multiset(a) != alnum_multiset(b) and base != 'failing':
        viol.append(V('C07|assert_equal|silent-but-relation-false|str,str', 'assert_equal(%r, %r): different alphanumeric content but %s' % (a, b, base)))
    variants = [('case', a.swapcase(), b), ('case', a, b.upper()), ('boundary-punctuation', a + '.', b), ('boundary-punctuation', a, '!' + b),
                ('boundary-whitespace', '  ' + a, b + ' '),
                # documented: lines without any word are removed, lines are sorted
                ('wordless-line', a + '\n-----', b), ('wordless-line', a, '   \n' + b), ('wordless-line', a.replace('\n', '\n.,;\n', 1), b)]
    if '\n' in a:
        variants.append(('line-order', '\n'.join(reversed(a.split('\n'))), b))
    for i, ch in enumerate(a):
        if ch in PUNCT:
            other = PUNCT[(PUNCT.index(ch) + 1) % len(PUNCT)]
            variants.append(('punctuation-swap', a[:i] + other + a[i + 1:], b))
            break
    for what, x, y in variants:
        got = outcome(x, y)
        if got != base:
            viol.append(V('C07|assert_equal|normalisation|%s' % what, 'assert_equal(%r, %r) is %s but the %s variant (%r, %r) is %s'
                          % (a, b, base, what, x, y, got)))
    nontrivial = a != b and alnum_multiset(a) == alnum_multiset(b)
    return Result(dedupe(viol), nontrivial, ['family=strnorm', 'base=' + base])


ORGANIZED = {  # family -> (assertion name, operands that satisfy it, operands that do not)
    'equal': ('assert_equal', (1, 1), (1, 2)), 'less': ('assert_less', (1, 2), (2, 1)), 'in': ('assert_in', (1, [1, 2]), (3, [1, 2])),
    'true': ('assert_true', (1,), (0,)), 'is_none': ('assert_is_none', (None,), (0,)), 'raising-relation': ('assert_less', (1, 2), (1, 'a')),
}


def judge_organizer(case):
    """A run of assertions inside an instructor function decorated with @stop_on_failure / @try_all (or undecorated): each assertion
    that is reached is silent exactly when it holds; @stop_on_failure skips what follows the first one that does not hold."""
    import pedal.assertions.runtime as R
    from pedal.assertions import organizers as O
    from pedal.core.report import MAIN_REPORT
    fresh()
    name, good, bad = ORGANIZED[case['family']]
    pattern = case['pattern']
    reached, made = [], []

    def body():
        for i, holds in enumerate(pattern):
            reached.append(i)
            made.append(getattr(R, name)(*(good if holds else bad)))
    mode = case['mode']
    fn = {'plain': lambda f: f, 'stop_on_failure': O.stop_on_failure, 'try_all': O.try_all,
          'try_all_inside_stop': lambda f: O.stop_on_failure(O.try_all(f))}[mode](body)
    viol = []
    desc = '%s around %s with outcomes %r' % (mode, name, ['holds' if h else 'fails' for h in pattern])
    try:
        fn()
    except Exception as e:
        return Result([V('C07|organizer|%s|raises:%s' % (mode, type(e).__name__), '%s: raised %r' % (desc, e))], True, ['organizer=' + mode])
    stops = mode == 'stop_on_failure'
    first_bad = pattern.index(False) if False in pattern else None
    want_reached = list(range(len(pattern))) if (not stops or first_bad is None) else list(range(first_bad + 1))
    if reached != want_reached:
        viol.append(V('C07|organizer|%s|assertions-reached' % mode, '%s: assertions %r were evaluated, expected %r' % (desc, reached, want_reached)))
    failing = [f for f in MAIN_REPORT.feedback if f.label == name]
    want_failing = sum(1 for i in want_reached if not pattern[i])
    if len(failing) != want_failing:
        viol.append(V('C07|organizer|%s|failing-feedback-count' % mode, '%s: %d failing feedback recorded, %d of the reached assertions do not hold'
                      % (desc, len(failing), want_failing)))
    if MAIN_REPORT['assertions']['exceptions']:
        viol.append(V('C07|organizer|%s|mode-not-restored' % mode, '%s: the report is still in stop-on-failure mode afterwards' % desc))
        MAIN_REPORT['assertions']['exceptions'] = False
    return Result(dedupe(viol), len(pattern) >= 2 and False in pattern, ['organizer=' + mode])


def judge(case):
    kind = case['kind']
    if kind == 'organizer':
        return judge_organizer(case)
    if kind == 'strnorm':
        return judge_strnorm(case)
    if kind == 'binary':
        return judge_binary(case)
    if kind == 'unary':
        return judge_unary(case)
    if kind == 'type':
        return judge_type(case)
    if kind == 'typegen':
        return judge_typegen(case)
    if kind == 'output':
        return judge_output(case)
    return judge_unit(case)


def table(tier):
    vals = VALUES + list(ERRORS)
    for fam in BINARY_FAMILIES:
        if fam.startswith('length'):
            seconds = LENGTHS
        elif fam == 'is_instance':
            seconds = CLASSES
        else:
            seconds = vals
        firsts = REGEXES + [ERR] if fam == 'regex' else vals
        for a, b in itertools.product(firsts, seconds):
            if a in ERRORS and b in ERRORS:
                continue
            if fam == 'equal':
                yield {'kind': 'binary', 'family': fam, 'a': a, 'b': b, 'exact': False}
                yield {'kind': 'binary', 'family': fam, 'a': a, 'b': b, 'exact': True}
            else:
                yield {'kind': 'binary', 'family': fam, 'a': a, 'b': b}
    for fam in ('equal', 'less', 'greater_equal', 'in'):
        for a, b in itertools.product(HUGE, HUGE):
            if '5000' not in (a + b):
                continue
            yield dict({'kind': 'binary', 'family': fam, 'a': a, 'b': b}, **({'exact': False} if fam == 'equal' else {}))
    # the tolerance as a parameter: the default spelled None, none at all, a wide and a narrow one
    numeric = ['5', '5.0', '5.0004', '5.002', '5.4', '6', "float('inf')", "float('nan')", '[1.0, 2.0]', '[1.0004, 2.4]', '(5.0, 6)', '(5.4, 6.0)',
               "{'k': 5.0}", "{'k': 5.4}", '{1.0, 2.0}', '{1.0004, 2.4}', 'Rec(1)', 'Rec(1.4)', 'True', "'5.0'", 'None', ERR]
    for a, b in itertools.product(numeric, numeric):
        if a in ERRORS and b in ERRORS:
            continue
        for delta in (None, 0, 0.5, 1e-06):
            yield {'kind': 'binary', 'family': 'equal', 'a': a, 'b': b, 'exact': False, 'delta': delta}
    # message-shaping keywords and the unittest-style front end must not change any verdict
    sample = ['5', '3', '5.0004', "'a'", "'A'", '[1, 2]', 'None', ERR]
    for fam in BINARY_FAMILIES:
        seconds = LENGTHS[:4] if fam.startswith('length') else CLASSES[:4] if fam == 'is_instance' else sample
        firsts = REGEXES[:3] if fam == 'regex' else sample
        for a, b in itertools.product(firsts, seconds):
            if a in ERRORS and b in ERRORS:
                continue
            for present in ('explanation', 'context', 'assertion', 'silent-context', 'testcase', 'after-clear-context', 'kept-across-clear-context'):
                yield {'kind': 'binary', 'family': fam, 'a': a, 'b': b, 'present': present}
    for fam in UNARY_FAMILIES:
        for a in vals:
            yield {'kind': 'unary', 'family': fam, 'a': a}
    for fam in ORGANIZED:
        for n in range(1, 5):
            for pattern in itertools.product([True, False], repeat=n):
                for mode in ('plain', 'stop_on_failure', 'try_all', 'try_all_inside_stop'):
                    yield {'kind': 'organizer', 'family': fam, 'pattern': list(pattern), 'mode': mode}
    for i in range(len(TYPE_TABLE)):
        yield {'kind': 'type', 'index': i}
    texts = ['hello world', 'Hello, World!', 'hello world\n', 'a\nb', 'b\na', '', 'x', '5.0', 'HELLO   WORLD', 'hello world\n\n', 'x\n\n\n', 'x\r\n',
             # letters whose lower-case and case-folded forms differ
             'Die Straße ist lang', 'STRASSE', 'MASSE: 12 kg', 'maße', 'Η ΟΔΟΣ', 'οδοσ']
    for printed, expected, exact in itertools.product(texts, texts, (False, True)):
        yield {'kind': 'output', 'printed': printed, 'expected': expected, 'exact': exact}
        if exact:
            yield {'kind': 'output', 'printed': printed, 'expected': expected, 'exact': exact, 'regex': 'str'}
            yield {'kind': 'output', 'printed': printed, 'expected': expected, 'exact': exact, 'regex': 'compiled'}
        if exact or printed in texts[:6]:
            yield {'kind': 'output', 'printed': printed, 'expected': expected, 'exact': exact, 'kept': 'first'}
            yield {'kind': 'output', 'printed': printed, 'expected': expected, 'exact': exact, 'kept': 'later'}
    words = ['hello world', 'Hello, World!', 'HELLO WORLD', 'hello, world', 'helloworld', 'a b c', 'A, b; c.', 'abc', 'a', 'A', 'a.',
             'b', '', 'x y', 'y x', 'total: 5', 'Total 5!', 'total 6', 'Hello\nWorld', 'world\nhello', 'hello!\n-----\nworld.', 'a\n\nb', 'a\nb']
    for a, b in itertools.product(words, words):
        yield {'kind': 'strnorm', 'a': a, 'b': b}
    yield {'kind': 'output', 'printed': '', 'expected': 'x', 'exact': False, 'error': True}
    yield {'kind': 'output', 'printed': '', 'expected': 'x', 'exact': False, 'error': True, 'kept': 'first'}
    yield {'kind': 'output', 'printed': '', 'expected': '', 'exact': True, 'error': True}


ENUMS = {'table': table}

_scalars = st.one_of(st.integers(-5, 5), st.booleans(), st.none(), st.sampled_from([5.0, 5.0004, 5.002, 0.1, 2.5, -1.5, 5e8, 5e8 + 0.04, 1234567890.25]),
                     st.sampled_from(['a', 'A', 'a.', 'hello world', 'Hello, World!', 'b', '']))
_nested = st.recursive(_scalars, lambda ch: st.one_of(st.lists(ch, max_size=3), st.lists(ch, max_size=3).map(tuple),
                                                      st.dictionaries(st.sampled_from(['a', 'b', 'k']), ch, max_size=3)), max_leaves=6)


@st.composite
def perturbed_pair(draw):
    """(a, b) where b is a, or a with one leaf perturbed (tolerance-sized float nudge, case change, punctuation, +1)."""
    a = draw(_nested)

    def perturb(v):
        if isinstance(v, bool) or v is None:
            return v
        if isinstance(v, int):
            return draw(st.sampled_from([v, v + 1, float(v), v + 0.0004, v + 0.002, v * 10 ** 8 + 0.04, v * 10 ** 8]))
        if isinstance(v, float):
            return draw(st.sampled_from([v, v + 0.0004, v - 0.0004, v + 0.002, int(v), v * 1e9, v * 1e9 + 0.5]))
        if isinstance(v, str):
            return draw(st.sampled_from([v, v.upper(), v + '!', v.replace(' ', ', '), v + 'x']))
        if isinstance(v, list):
            return [perturb(i) for i in v]
        if isinstance(v, tuple):
            return tuple(perturb(i) for i in v)
        if isinstance(v, dict):
            return {k: perturb(x) for k, x in v.items()}
        return v
    b = perturb(a)
    return {'kind': 'binary', 'family': 'equal', 'a': repr(a), 'b': repr(b), 'exact': draw(st.booleans())}


def unit_cases(tier):
    return st.fixed_dictionaries({'kind': st.just('unit'), 'func': st.sampled_from(sorted(UNIT_FUNCS)),
                                  'cases': st.lists(st.tuples(st.integers(0, 5), st.booleans()).map(list), min_size=1, max_size=5)})


_leaf_spec = st.sampled_from(['int', 'float', 'str', 'bool'])
_hashable_spec = st.sampled_from(['int', 'str'])
_spec = st.recursive(_leaf_spec, lambda ch: st.one_of(
    st.tuples(st.just('list'), ch).map(list), st.tuples(st.just('set'), _hashable_spec).map(list),
    st.tuples(st.just('dict'), _hashable_spec, ch).map(list),
    st.lists(ch, min_size=1, max_size=3).map(lambda xs: ['tuple'] + xs)), max_leaves=5)


def _mutations(spec):
    """Specs that differ from `spec` in exactly one place."""
    out = []
    if isinstance(spec, str):
        return [x for x in ('int', 'float', 'str', 'bool') if x != spec] + [['list', spec]]
    out.append(spec[0])                                   # bare container name
    out.append({'list': 'tuple', 'tuple': 'list', 'set': 'list', 'dict': 'list'}[spec[0]])
    if spec[0] == 'tuple':
        out.append(spec + ['int'])
        if len(spec) > 2:
            out.append(spec[:-1])
            out.append([spec[0]] + spec[1:][::-1])
    if spec[0] == 'list':
        out.append(['set', spec[1]] if spec[1] in ('int', 'str') else ['tuple', spec[1]])
    for i in range(1, len(spec)):
        for m in _mutations(spec[i]):
            if spec[0] in ('set',) and not isinstance(m, str):
                continue
            out.append(spec[:i] + [m] + spec[i + 1:])
    return out


@st.composite
def typegen_cases(draw):
    actual = draw(_spec)
    mode = draw(st.sampled_from(['same', 'mutated', 'mutated', 'other']))
    if mode == 'same':
        asked = actual
    elif mode == 'mutated':
        asked = draw(st.sampled_from(_mutations(actual)))
    else:
        asked = draw(_spec)
    form = draw(st.sampled_from(['string', 'alias', 'plain']))
    return {'kind': 'typegen', 'actual': actual, 'asked': asked, 'form': form, 'picks': draw(st.lists(st.integers(0, 11), min_size=3, max_size=6))}


STRATEGIES = {'nested': lambda tier: perturbed_pair(), 'unit': unit_cases, 'typegen': lambda tier: typegen_cases()}


def plan(tier):
    k = 1 if tier == 'quick' else 20
    return [Task('enum', 'table', shards=12), Task('hyp', 'nested', shards=2, examples=scale(600 * k)),
            Task('hyp', 'unit', shards=2, examples=scale(300 * k)), Task('hyp', 'typegen', shards=2, examples=scale(400 * k))]
