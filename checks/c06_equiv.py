"""C06 - sandboxed execution is observationally equivalent to plain CPython execution."""
import builtins
import contextlib
import io
import math
import re
import sys
import traceback
import types

from hypothesis import strategies as st

from vlib.driver import Result, Task, V
from vlib import gen_cs1 as CS1
from checks.c01_resolver import scale

ID = 'C06'
LEVEL = 'exploration'
RULE = ('Typed G-CS1 programs (<= 12 top-level statements, nesting depth 2; ~35 % carry a risk knob that raises one of 15 '
        'exception classes at a generated position) x an input queue of 0-5 strings, followed by 0-3 calls of the program\'s '
        'own functions with arguments from a value table (nan/inf, > 200-character reprs, nested containers, sets, None, '
        'bytes, complex). Oracle: the same source compiled with the same filename and exec\'d as __main__ in a fresh dict in '
        'this interpreter (stdout redirected, input() fed from the same queue). Compared: stdout minus marked prompts, every '
        'student-defined global, outcome class + innermost student line, return value / exception class of each call. '
        'Non-trivial: >= 8 statements and >= 3 construct families, or ends in an exception, or reads input; call cases: '
        '>= 1 non-scalar argument. Distinct = SHA-1 of the JSON case.')
ASSUMPTIONS = ['every input() carries a marked prompt («pN»); the echo (prompt + optional newline) is deleted on both sides',
               'names the sandbox documents as builtin overrides (compile eval exec globals exit open __import__ input print) '
               'and the call target "_" may appear in sandbox.data',
               'for RecursionError only the class is compared (the depth at which it fires differs with the stack height)',
               'the in-process reference is itself validated against a real "python -I" subprocess in the thorough tier']
DOCUMENTED_OVERRIDES = {'compile', 'eval', 'exec', 'globals', 'exit', 'open', '__import__', 'input', 'print', '_'}
PROMPT_TEXT = r'(?:«p1»|«p2» |«p3»: |«p9»)'
PROMPT_RE = re.compile(PROMPT_TEXT)
_ECHO = {}


def echo_suffix():
    """How the sandbox echoes a prompt (calibrated once per process on a probe): the text it writes after the prompt."""
    if 'suffix' not in _ECHO:
        from pedal.core.commands import contextualize_report
        from pedal.core.report import MAIN_REPORT
        from pedal.sandbox.commands import get_sandbox
        MAIN_REPORT.full_clear()
        contextualize_report("v = input('«p9»')\nprint('|' + v)\n")
        sb = get_sandbox()
        sb.run(inputs=['w'])
        out = sb.raw_output
        suffix = ''
        if out.startswith('«p9»') and out.endswith('|w\n'):
            suffix = out[len('«p9»'):-len('|w\n')]
        _ECHO['suffix'] = suffix
        MAIN_REPORT.full_clear()
    return _ECHO['suffix']


def strip_sandbox_echo(text):
    return re.sub(PROMPT_TEXT + re.escape(echo_suffix()), '', text)
FILENAME = 'answer.py'


def run_reference(code, inputs):
    """Plain CPython: returns (stdout, namespace, exception or None, student line or None)."""
    queue = list(inputs)

    def fake_input(prompt=''):
        sys.stdout.write(str(prompt))
        return queue.pop(0) if queue else '0'
    ns = {'__name__': '__main__'}
    buf = io.StringIO()
    old_input = builtins.input
    builtins.input = fake_input
    exc, line = None, None
    try:
        with contextlib.redirect_stdout(buf):
            try:
                exec(compile(code, FILENAME, 'exec'), ns)
            except Exception as e:
                exc = e
                for fr in traceback.extract_tb(e.__traceback__):
                    if fr.filename == FILENAME:
                        line = fr.lineno
    finally:
        builtins.input = old_input
    return buf.getvalue(), ns, exc, line


def R(value):
    """repr() for messages: an int beyond the interpreter's print limit has none."""
    try:
        return repr(value)
    except Exception as e:
        return '<%s without repr: %s>' % (type(value).__name__, type(e).__name__)


def same_value(a, b, depth=0):
    if (type(a) is not type(b) and type(a).__name__ == type(b).__name__ and hasattr(a, '__dict__') and hasattr(b, '__dict__')
            and not isinstance(a, (type, types.FunctionType, types.ModuleType, BaseException)) and depth < 8):
        return same_value(vars(a), vars(b), depth + 1)   # instances of the 'same' student class from two namespaces
    if type(a) is not type(b):
        # pedal replaces KeyError by its own subclass-like stand-in: compare by name for exceptions
        if isinstance(a, BaseException) and isinstance(b, BaseException):
            return type(a).__name__ == type(b).__name__
        return False
    if isinstance(a, float):
        return (a != a and b != b) or (a == b and math.copysign(1, a) == math.copysign(1, b))
    if isinstance(a, complex):
        return same_value(a.real, b.real) and same_value(a.imag, b.imag)
    if isinstance(a, (list, tuple)) and depth < 8:
        return len(a) == len(b) and all(same_value(x, y, depth + 1) for x, y in zip(a, b))
    if isinstance(a, dict) and depth < 8:
        return set(a) == set(b) and all(same_value(a[k], b[k], depth + 1) for k in a)
    if isinstance(a, (types.FunctionType, type)):
        return a.__name__ == b.__name__
    if isinstance(a, types.ModuleType):
        return a.__name__ == b.__name__
    if isinstance(a, BaseException):
        return type(a).__name__ == type(b).__name__ and str(a) == str(b)
    if hasattr(a, '__dict__') and type(a).__module__ in ('__main__', 'builtins') and not isinstance(a, (int, str)):
        if type(a).__name__ != type(b).__name__:
            return False
        return same_value(vars(a), vars(b), depth + 1)
    if isinstance(a, (list, tuple, dict)):
        return repr(a) == repr(b)       # deeper than the structural comparison goes (a list that contains itself never ends)
    try:
        return bool(a == b)
    except Exception:
        return False


def kind_of(v):
    if isinstance(v, types.FunctionType):
        return 'function'
    if isinstance(v, type):
        return 'class'
    if isinstance(v, types.ModuleType):
        return 'module'
    return 'data'


def compare_globals(ref_ns, data, viol, where):
    for name, rv in ref_ns.items():
        if name.startswith('__'):
            continue
        if name not in data:
            viol.append(V('C06|globals|missing', '%s: global %r (= %r) of the plain run is missing in sandbox.data' % (where, name, rv)))
            return
        sv = data[name]
        if kind_of(rv) != kind_of(sv):
            viol.append(V('C06|globals|kind', '%s: global %r is a %s in plain Python but a %s in the sandbox' % (where, name, kind_of(rv), kind_of(sv))))
            return
        if kind_of(rv) == 'data':
            if type(rv).__name__ != type(sv).__name__ or not (same_value(rv, sv) if type(rv) is type(sv) else same_value(vars(rv), vars(sv))
                                                                if hasattr(rv, '__dict__') and hasattr(sv, '__dict__') else False):
                viol.append(V('C06|globals|value', '%s: global %r = %r in plain Python but %r in the sandbox' % (where, name, rv, sv)))
                return
        elif rv.__name__ != sv.__name__:
            viol.append(V('C06|globals|name', '%s: global %r names %r vs %r' % (where, name, rv.__name__, sv.__name__)))
            return
    extra = [n for n in data if not n.startswith('__') and n not in ref_ns and n not in DOCUMENTED_OVERRIDES
             and not n.startswith('_temporary_')]
    if extra:
        viol.append(V('C06|globals|extra', '%s: sandbox.data has names the program never defined: %r' % (where, sorted(extra)[:6])))
    temps = [n for n in data if n.startswith('_temporary_')]
    if temps:
        viol.append(V('C06|globals|temporaries-left', '%s: temporaries left in the namespace: %r' % (where, temps[:4])))


def judge(case):
    from pedal.core.commands import contextualize_report
    from pedal.core.report import MAIN_REPORT
    from pedal.sandbox.commands import get_sandbox
    from pedal.sandbox.result import is_sandbox_result
    code, inputs = case['code'], case['inputs']
    viol, classes = [], []
    echo_suffix()
    ref_out, ref_ns, ref_exc, ref_line = run_reference(code, inputs)
    MAIN_REPORT.full_clear()
    contextualize_report(code)
    sb = get_sandbox()
    try:
        # the documented ways of handing over the same queue: list, tuple, one bare string, set_input() before run()
        form = case.get('input_form', 'list')
        if form == 'bare' and len(inputs) == 1:
            classes.append('inputs-as-bare-string')
            sb.run(inputs=inputs[0])
        elif form == 'tuple':
            sb.run(inputs=tuple(inputs))
        elif form == 'set_input' and inputs:
            sb.set_input(inputs[0])
            for extra in inputs[1:]:
                sb.set_input(extra, clear=False)
            sb.run()
        else:
            sb.run(inputs=list(inputs))
    except Exception as e:
        MAIN_REPORT.full_clear()
        return Result([], True, ['run-raised(left to C04)'], ambiguous=1)
    out = sb.raw_output
    # (1) printed text
    if strip_sandbox_echo(out) != PROMPT_RE.sub('', ref_out):
        viol.append(V('C06|stdout', 'printed text differs:\n  sandbox: %r\n  plain:   %r\n  program tail:\n%s'
                      % (strip_sandbox_echo(out)[-300:], PROMPT_RE.sub('', ref_out)[-300:], code[-400:])))
    # (3) outcome
    sexc = sb.exception
    if is_sandbox_result(sexc):
        sexc = sexc._actual_value
    if (ref_exc is None) != (sexc is None):
        viol.append(V('C06|outcome|%s' % ('sandbox-only-exception' if ref_exc is None else 'sandbox-missed-exception'),
                      'plain Python: %r, sandbox: %r; program tail:\n%s' % (ref_exc, sexc, code[-400:])))
    elif ref_exc is not None:
        classes.append('raises=' + type(ref_exc).__name__)
        if type(ref_exc).__name__ != type(sexc).__name__:
            viol.append(V('C06|outcome|exception-class', 'plain Python raises %s, sandbox reports %s' % (type(ref_exc).__name__, type(sexc).__name__)))
        elif not isinstance(ref_exc, RecursionError) and ref_line is not None:
            fb = sb.feedback
            sline = fb.location.line if fb is not None and fb.location is not None else None
            if sline != ref_line:
                viol.append(V('C06|outcome|line', '%s raised on student line %r in plain Python, sandbox feedback says %r; program tail:\n%s'
                              % (type(ref_exc).__name__, ref_line, sline, code[-300:])))
    else:
        classes.append('normal-end')
    # (2) globals
    if not viol:
        compare_globals(ref_ns, sb.data, viol, 'after run')
    # (4) calls
    nonscalar_call = False
    options = {'zeta': 'from the options'}       # one dictionary object for all calls of this case
    for spec in case.get('calls', []):
        if viol or ref_exc is not None:
            break
        f = spec['f']
        if f not in ref_ns:
            continue
        try:
            ref_args = [eval(a, dict(CS1.ARG_NAMESPACE)) for a in spec['args']]
            ref_kwargs = {k: eval(v, dict(CS1.ARG_NAMESPACE)) for k, v in spec['kwargs'].items()}
            sb_args = [eval(a, dict(CS1.ARG_NAMESPACE)) for a in spec['args']]
            sb_kwargs = {k: eval(v, dict(CS1.ARG_NAMESPACE)) for k, v in spec['kwargs'].items()}
        except Exception:
            continue
        if any(isinstance(a, (list, tuple, dict, set, frozenset, range)) for a in ref_args + list(ref_kwargs.values())):
            nonscalar_call = True
        if spec.get('options'):
            ref_kwargs = dict(ref_kwargs, zeta='from the options')
            sb_kwargs = dict(sb_kwargs, function_kwargs=options)
            classes.append('shared-function_kwargs')
        buf = io.StringIO()
        try:
            with contextlib.redirect_stdout(buf):
                ref_res = ('ok', ref_ns[f](*ref_args, **ref_kwargs))
        except Exception as e:
            ref_res = ('raise', e)
        try:
            got = sb.call(f, *sb_args, **sb_kwargs)
        except Exception as e:
            viol.append(V('C06|call|escapes', 'call(%r, ...) raised %r into the grader' % (f, e)))
            break
        sb_exc = sb.exception
        if is_sandbox_result(sb_exc):
            sb_exc = sb_exc._actual_value
        desc = 'call(%r, %s%s)' % (f, ', '.join(spec['args']), ''.join(', %s=%s' % kv for kv in spec['kwargs'].items()))
        argkind = 'nan/inf' if any(('nan' in a or 'inf' in a) for a in spec['args'] + list(spec['kwargs'].values())) else \
            ('long-repr' if any(len(R(a)) > 200 for a in ref_args) else 'plain')
        if ref_res[0] == 'ok':
            if sb_exc is not None:
                viol.append(V('C06|call|sandbox-only-exception|args=%s' % argkind, '%s returns %s in plain Python but fails in the sandbox with %r'
                              % (desc, R(ref_res[1])[:300], sb_exc)))
                break
            val = got._actual_value if is_sandbox_result(got) else got
            if not same_value(ref_res[1], val):
                viol.append(V('C06|call|return-value|args=%s' % argkind, '%s returns %s in plain Python, %s in the sandbox' % (desc, R(ref_res[1])[:300], R(val)[:300])))
                break
            if buf.getvalue() != sb.get_context()[-1].output:
                viol.append(V('C06|call|stdout', '%s prints %r in plain Python, %r in the sandbox' % (desc, buf.getvalue(), sb.get_context()[-1].output)))
                break
        else:
            if sb_exc is None:
                viol.append(V('C06|call|sandbox-missed-exception|args=%s' % argkind, '%s raises %r in plain Python but returned %s in the sandbox'
                              % (desc, ref_res[1], R(got)[:300])))
                break
            if type(sb_exc).__name__ != type(ref_res[1]).__name__:
                viol.append(V('C06|call|exception-class|args=%s' % argkind, '%s raises %s in plain Python, %s in the sandbox'
                              % (desc, type(ref_res[1]).__name__, type(sb_exc).__name__)))
                break
        classes.append('call-' + ref_res[0])
        compare_globals(ref_ns, sb.data, viol, 'after ' + desc)
    body = code[len(CS1.PRELUDE):]
    families = sum(1 for kw in ('for ', 'while ', 'if ', 'def ', 'class ', 'try:', 'print(', 'input(', 'lambda', '.append(', 'd0[') if kw in body)
    n_stmts = body.count('\n')
    nontrivial = (n_stmts >= 8 and families >= 3) or ref_exc is not None or 'input(' in body or nonscalar_call
    if 'input(' in body:
        classes.append('reads-input')
    MAIN_REPORT.full_clear()
    return Result(viol[:3], nontrivial, classes)


def cases(tier):
    return st.builds(lambda p, q, calls, form: {'code': p['code'], 'inputs': q, 'calls': calls, 'input_form': form},
                     CS1.cs1_program(), CS1.input_queue(), st.lists(CS1.call_spec(), max_size=3), st.sampled_from(['list', 'list', 'tuple', 'bare', 'set_input']))


def call_cases(tier):
    """Short program (prelude only), several calls with the awkward argument values."""
    return st.builds(lambda calls: {'code': CS1.PRELUDE + '\nready = True\n', 'inputs': [], 'calls': calls},
                     st.lists(CS1.call_spec(), min_size=1, max_size=4))


def option_call_cases(tier):
    """Several calls of the function that takes keyword arguments: the instructor's shared options dictionary meets direct keywords."""
    return st.builds(lambda calls: {'code': CS1.PRELUDE + '\nready = True\n', 'inputs': [], 'calls': calls},
                     st.lists(CS1.call_spec(only='pair'), min_size=2, max_size=4))


STRATEGIES = {'programs': cases, 'calls': call_cases, 'optioncalls': option_call_cases}


def subprocess_reference(tier, seed, shard, task, col):
    """Thorough: validate the in-process reference against a real `python -I` subprocess on generated programs."""
    import json
    import subprocess
    from hypothesis import given, seed as hseed
    from vlib.driver import hyp_settings, derive_seed
    runner = ('import sys, json, builtins\nq = json.loads(sys.argv[2])\n'
              'def fake(p=""):\n    sys.stdout.write(str(p))\n    return q.pop(0) if q else "0"\nbuiltins.input = fake\n'
              'src = open(sys.argv[1], encoding="utf8").read()\n'
              'try:\n    exec(compile(src, "answer.py", "exec"), {"__name__": "__main__"})\n'
              'except Exception as e:\n    sys.stdout.flush(); sys.stderr.write("EXC:" + type(e).__name__)\n')
    import tempfile
    import os

    @hseed(derive_seed(seed, 'C06', 'subprocess', shard))
    @hyp_settings(task.examples)
    @given(cases(tier))
    def prop(case):
        ref_out, ref_ns, ref_exc, ref_line = run_reference(case['code'], case['inputs'])
        with tempfile.TemporaryDirectory(dir='/var/tmp') as d:
            path = os.path.join(d, 'answer.py')
            with open(path, 'w', encoding='utf8') as f:
                f.write(case['code'])
            p = subprocess.run([sys.executable, '-I', '-c', runner, path, json.dumps(case['inputs'])], capture_output=True, timeout=60,
                               env={'PYTHONIOENCODING': 'utf8', 'PYTHONHASHSEED': '0'})
        out = p.stdout.decode('utf8', 'replace')
        exc = p.stderr.decode('utf8', 'replace')
        exc_name = exc.rsplit('EXC:', 1)[1].strip() if 'EXC:' in exc else None
        viol = []
        if out != ref_out or exc_name != (type(ref_exc).__name__ if ref_exc is not None else None):
            viol.append(V('C06|reference-disagrees-with-subprocess', 'in-process reference %r/%r vs python -I %r/%r'
                          % (ref_out[-200:], ref_exc, out[-200:], exc_name)))
        col.record({'reference_validation': case}, Result(viol, True, ['reference-validated-by-subprocess']))
    prop()


CUSTOM = {'subprocess': subprocess_reference}


def plan(tier):
    if tier == 'quick':
        return [Task('hyp', 'programs', shards=12, examples=scale(250)), Task('hyp', 'calls', shards=3, examples=scale(400)),
                Task('hyp', 'optioncalls', shards=1, examples=scale(200))]
    return [Task('hyp', 'programs', shards=11, examples=scale(15000)), Task('hyp', 'calls', shards=3, examples=scale(15000)), Task('hyp', 'optioncalls', shards=1, examples=scale(5000)),
            Task('custom', 'subprocess', shards=1, examples=scale(600))]
