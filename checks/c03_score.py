"""C03 - the final score follows the documented valence/trigger arithmetic."""
import itertools
from fractions import Fraction

from vlib.driver import Result, Task, V
from vlib import gen_report as G
from vlib import report_model as M
from checks.c01_resolver import resolver_fn, scale

ID = 'C03'
LEVEL = 'exploration'
RULE = ('Hypothesis scenarios (every spec carries a score in one of the documented forms: int, 2-decimal float, "+N", '
        '"N%", "+N%", "-N", "-N%"; all valences, activations, muted/unscored/suppressed variants) plus an exhaustive '
        'single-feedback table valence x triggered x muted x unscored x suppressed x score form; oracle: exact rational '
        'sum over model-counted feedback, compared within 0.005 (either rounding of an exact half). Non-trivial: >=2 '
        'scored feedbacks covering >=2 rows of the valence x triggered table and a non-default result; table cases are '
        'non-trivial when the feedback carries a score. Distinct = SHA-1 of the canonical JSON case.')
ASSUMPTIONS = ['only the score forms the statement names are generated (no *, /, exponent floats, bools)',
               'with correctness hidden (suppress("correct")) and nothing eligible either 1 or the sum is accepted',
               'suppression model shared with C01']
EXHAUSTIVE_NOTE = 'the single-feedback table task is enumerated completely; the scenario task is sampled'


def plan(tier):
    n = 1500 if tier == 'quick' else 40000
    return [Task('hyp', 'scenarios', shards=15, examples=scale(n)), Task('enum', 'table', shards=1)]


STRATEGIES = {'scenarios': lambda tier: G.scenario_strategy(score_bias=True)}


def table(tier):
    forms = [2, 0.25, '+3', '25%', '+50%', '-1', '-10%', -2, None]
    for valence, activate, muted, unscored, sup, score, ctor in itertools.product(
            [None, -1, 0, 1], [True, False], [None, True], [None, True], [None, 'category', 'label', 'label+fields-miss'],
            forms, ['Feedback', 'explain']):
        kw = {'label': 'alpha', 'category': 'instructor', 'activate': activate, 'fields': {'k': 1}}
        if ctor == 'Feedback':
            kw['message'] = 'm one'
        else:
            kw['message'] = 'm two'
        for k, v in (('valence', valence), ('muted', muted), ('unscored', unscored), ('score', score)):
            if v is not None:
                kw[k] = v
        sups = []
        if sup == 'category':
            sups = [{'category': 'Instructor', 'label': True, 'fields': None}]
        elif sup == 'label':
            sups = [{'category': None, 'label': 'alpha', 'fields': None}]
        elif sup == 'label+fields-miss':
            sups = [{'category': 'instructor', 'label': 'ALPHA', 'fields': {'k': 2}}]
        # a second, always-visible unscored feedback keeps the result from being the default
        other = {'ctor': 'gently', 'kw': {'message': 'm three', 'label': 'beta', 'category': 'student'}}
        yield {'specs': [{'ctor': ctor, 'kw': kw}, other], 'sups': sups, 'sup_pos': [0] * len(sups), 'resolver': 'simple'}


ENUMS = {'table': table}


def check_one(final, obs, elig, sups, tag, viol):
    expected, amb = M.expected_score(obs, sups)
    if amb:
        return True
    hidden = M.hides_correctness(sups)
    got = final.score
    if isinstance(got, bool) or not isinstance(got, (int, float)):
        viol.append(V('C03|%s|score-type' % tag, 'score is %r' % (got,)))
        return False
    # two-decimal rounding, plus the rounding error of adding floats of very different magnitude (a 1e16 score swallows a 0.05)
    scale = max([abs(v) for v in (M.score_value(o.score) for o in obs) if v is not None] + [Fraction(0)])
    ok_sum = abs(Fraction(repr(float(got))) - expected) <= Fraction(5, 1000) + Fraction(1, 10 ** 9) + scale * (len(obs) + 1) / 10 ** 15
    if not elig:
        ok = (got == 1) if not hidden else (got == 1 or ok_sum)
        if not ok:
            viol.append(V('C03|%s|default-score' % tag, 'nothing eligible (default result) but score=%r' % (got,)))
    elif not ok_sum:
        rows = [(o.label, o.score, o.valence, o.triggered, o.muted, o.unscored, M.is_suppressed(o, sups)) for o in obs
                if o.score is not None]
        viol.append(V('C03|%s|sum-mismatch' % tag, 'score=%r expected=%s from (label,score,valence,triggered,muted,'
                                                     'unscored,suppressed)=%r' % (got, float(expected), rows)))
    return False


def judge(case):
    from pedal.core.report import MAIN_REPORT
    viol, classes = [], []
    raised, sups = G.replay_scenario(case)
    obs = M.observe(MAIN_REPORT)
    elig, amb = M.eligible(obs, sups)
    if amb:
        MAIN_REPORT.full_clear()
        return Result([], False, ['ambiguous-none-category'], ambiguous=1)
    rname = case['resolver']
    try:
        final = resolver_fn(rname)()
    except Exception:
        MAIN_REPORT.full_clear()
        return Result([], False, ['resolve-raised(left to C01)'], ambiguous=1)
    classes.append('resolver=' + rname)
    if any(spec['ctor'] == 'unit_test' for spec in case['specs']):
        classes.append('has-unit_test' + ('-ctor-raised' if any(case['specs'][i]['ctor'] == 'unit_test' for i, _ in raised) else ''))
    scored = [o for o in obs if o.score is not None]
    rows = set()
    for o in scored:
        row = ('neg' if o.valence == -1 else 'pos/neutral', 'trig' if o.triggered else 'untrig')
        rows.add(row)
        flags = ''.join(f for f, on in (('M', o.muted), ('U', o.unscored), ('S', M.is_suppressed(o, sups))) if on)
        classes.append('row=%s/%s%s' % (row[0], row[1], ('+' + flags) if flags else ''))
        sv = o.score
        form = ('num' if not isinstance(sv, str) else ('-' if sv.startswith('-') else '+' if sv.startswith('+') else '')
                + ('N%' if sv.endswith('%') else 'N'))
        classes.append('form=' + form)
    ambiguous = 0
    if rname in ('simple', 'full'):
        nontrivial = (len(scored) >= 2 and len(rows) >= 2 and bool(elig)) or (len(case['specs']) == 2 and bool(scored) and bool(elig))
        if check_one(final, obs, elig, sups, rname, viol):
            ambiguous = 1
        # resolved_score of each counted feedback parses back to its signed value
        for o in obs:
            if M.is_suppressed(o, sups) or o.unscored or o.score is None:
                continue
            rs = getattr(o.fb, 'resolved_score', None)
            v = M.score_value(o.score)
            if v is None or rs is None:
                continue
            body = rs.lstrip('!')
            pv = M.score_value(body)
            if pv is None or abs(pv - v) > max(abs(v) / 100, Fraction(1, 100)) + Fraction(5, 1000):
                viol.append(V('C03|resolved_score', 'resolved_score %r does not match score %r' % (rs, o.score)))
                break
            if (rs.startswith('!')) == M.counts_for_score(o):
                viol.append(V('C03|resolved_score-inversion', 'resolved_score %r inversion flag contradicts valence/trigger '
                                                              'table for valence=%r triggered=%r' % (rs, o.valence, o.triggered)))
                break
    else:
        nontrivial = False
        triggered = [o for o in obs if o.triggered]
        groups = {}
        for o in triggered:
            groups.setdefault(o.parent, []).append(o)
        for g, members in groups.items():
            if g in final:
                gelig = [e for e in elig if any(e is m for m in members)]
                msc = [m for m in members if m.score is not None]
                if len(msc) >= 2 and gelig:
                    nontrivial = True
                if check_one(final[g], members, gelig, sups, 'sectional', viol):
                    ambiguous = 1
    MAIN_REPORT.full_clear()
    return Result(viol, nontrivial, classes, ambiguous)
