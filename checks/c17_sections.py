"""C17 - sections split a submission losslessly and report whole-file line numbers."""
import ast
import contextlib
import io
import re
import traceback

from hypothesis import strategies as st

from vlib.driver import Result, Task, V
from checks.c01_resolver import scale

ID = 'C17'
LEVEL = 'exploration'
RULE = ('Hypothesis rule-based state machine. A file is constructed from 1-6 chunks (0-6 lines each, optionally carrying one '
        'tagged diagnostic: a syntax error, a runtime error or a TIFA issue) and 0-5 marker lines (default "##### Part N" or '
        'a custom single-group pattern) placed anywhere incl. first line, last line, adjacent; mode independent/cumulative; '
        'then separate_into_sections, next_section (also past the end, repeatedly), verify, tifa_analysis, run, '
        'stop_sections, resolve in any order. Oracle: lossless join; active code == constructed chunk / prefix; '
        'not_enough_sections instead of an error; expected whole-file lines by reference (the active code re-positioned in '
        'the file with blank lines, then ast.parse / plain exec / TIFA outside any section); main code restored after '
        'stop/resolve. Non-trivial: >= 1 marker and a diagnostic checked in a section with index >= 1. Distinct = SHA-1 of '
        'the JSON op list.')
ASSUMPTIONS = ['expected lines are computed on the re-positioned active text by CPython / by TIFA run outside any section, '
               'not from the tags alone (in cumulative mode earlier sections are re-run and their diagnostics fire first)',
               'chunks never contain a line matching the marker pattern']
MIN_NONTRIVIAL = {'quick': 30, 'thorough': 30}
FILENAME = 'answer.py'

PATTERNS = {'default': (r'^(##### Part .+)$', '##### Part %d'), 'custom': (r'^(# --- .+ ---)$', '# --- step %d ---'),
            'swallows-newline': (r'^(# === .*\n)', '# === part %d ===')}
GOOD_LINES = ['cr{i}_a = 1\rcr{i}_b = 2', '# page \x0c break', '{v}_s = "sep\u2028arator"', '# nel \x85 vt \x0b fs \x1c', '{v} = {n}', 'print({v})', '{v} = {v} + 1', 'for k{i} in range(2):\n    print(k{i})', 'def f{i}(x):\n    return x + {n}', 'print(f{i}(2))' ,
              '', '# comment', 'if {v} > 1:\n    print("big")\nelse:\n    print("small")', '{v}_list = [{n}, {n}]\nprint(len({v}_list))']
DIAGNOSTICS = {
    'syntax': ['bad = (1,', 'if True print(1)', '    indented = 1', 'x = = 2'],
    'runtime': ['crash = 1 / 0', 'print(name_that_is_not_defined)', 'boom = [1, 2][7]', "oops = int('x')",
                'def inner_fail():\n    return {}["k"]\ninner_fail()'],
    'tifa': ['print(never_set_variable)', 'unused_thing = 5', 'total = total_missing + 1', 'later = 1\nlater = "s" + 2',
             # issue kinds that TIFA locates through the offending node rather than through the statement being visited
             'for ch in 5:\n    print(ch)', 'nothing = []\nfor each in nothing:\n    print(each)', 'number = 1\nnumber.append(4)\nprint(number)',
             'again = [1, 2]\nfor again in again:\n    print(again)',
             # the analysis looks into another file of the submission (one that does not parse / one that does) and then goes on
             'if 0:\n    import broken_helper\nprint(never_set_after_import)', 'if 0:\n    import good_helper\n    print(good_helper.helper_value)\nprint(never_set_after_good_import)'],
}

_chunk = st.fixed_dictionaries({
    'lines': st.lists(st.sampled_from(list(range(len(GOOD_LINES))) + [0, 1, 2]), max_size=4),
    'diag': st.one_of(st.none(), st.tuples(st.sampled_from(sorted(DIAGNOSTICS)), st.integers(0, 39), st.integers(0, 4)).map(list), st.tuples(st.sampled_from(sorted(DIAGNOSTICS)), st.integers(0, 39), st.integers(0, 4)).map(list)),
    'trailing_blank': st.booleans(),
})
_setup = st.fixed_dictionaries({
    'op': st.just('setup'),
    'chunks': st.lists(_chunk, min_size=1, max_size=6).filter(lambda c: True) | st.lists(_chunk, min_size=3, max_size=6),
    'pattern': st.sampled_from(['default', 'default', 'custom', 'swallows-newline']),
    'independent': st.booleans(),
    'final_newline': st.booleans(),
    'leading_marker': st.booleans(),
    'same_names': st.booleans(),      # chunks use the same variable names, so equal specs give textually identical sections
})


def chunk_text(i, spec):
    out = []
    v = 'a%d' % i
    defined = False
    for j, li in enumerate(spec['lines']):
        tmpl = GOOD_LINES[li]
        if '{v}' in tmpl and not defined and not tmpl.startswith('{v} = {n}'):
            out.append('%s = %d' % (v, i + 1))
            defined = True
        if tmpl.startswith('{v} = {n}'):
            defined = True
        if 'f{i}(2)' in tmpl and not any(l.startswith('def f%d' % i) for l in out):
            out.append('def f%d(x):\n    return x' % i)
        out.append(tmpl.format(v=v, n=i + 2, i=i))
    if spec['diag']:
        kind, which, pos = spec['diag']
        lines = DIAGNOSTICS[kind]
        out.insert(min(pos, len(out)), lines[which % len(lines)])
    if spec['trailing_blank']:
        out.append('')
    return out


def build_file(setup):
    """Returns (file text, list of (start, end) character spans of the chunks incl. chunk 0 before the first marker)."""
    pattern, marker_fmt = PATTERNS[setup['pattern']]
    pieces = []          # ('chunk'|'marker', text-lines)
    chunks = setup['chunks']
    lines = []
    kinds = []
    for i, spec in enumerate(chunks):
        if i > 0 or setup['leading_marker']:
            lines.append(marker_fmt % (i if i > 0 else 0))
            kinds.append('marker')
        for l in chunk_text(0 if setup.get('same_names') else i, spec):
            for sub in l.split('\n'):
                lines.append(sub)
                kinds.append('chunk')
    text = '\n'.join(lines)
    if setup['final_newline']:
        text += '\n'
    return text, pattern


def reference_split(text, pattern):
    """Independent split: character spans of marker lines found with re.finditer (not re.split)."""
    spans = [m.span(1) for m in re.finditer(pattern, text, flags=re.MULTILINE)]
    chunks = []
    prev = 0
    for s, e in spans:
        chunks.append((prev, s))
        prev = e
    chunks.append((prev, len(text)))
    return spans, chunks      # chunks[0] = text before the first marker, chunks[j] = text after marker j


HELPER_FILES = {'broken_helper.py': 'def (:\n    pass\n', 'good_helper.py': 'helper_value = 5\n'}      # further files of every submission
OTHER_TEXTS = ['x = (1\ny = 2\n', 'a = 1\nb = 2\n  c = 3\n', 'fine = 1\nprint(fine)\n', 'one = 1\ntwo = 2\nthree = 3\ndef f(:\n    pass\n']


class Stepper:
    def __init__(self, tier):
        from pedal.core.report import MAIN_REPORT
        MAIN_REPORT.full_clear()
        self.report = MAIN_REPORT
        self.ready = False
        self.section = 0         # number of next_section calls so far
        self.stopped = False
        self.flags = set()
        self.diag_checked_in_later_section = False

    def op_strategy(self):
        if not self.ready:
            return _setup
        if self.stopped:
            return st.sampled_from([{'op': 'check_restored'}, {'op': 'resolve'}])
        return st.sampled_from([{'op': 'next_section'}, {'op': 'next_section'}, {'op': 'next_section'}, {'op': 'verify'}, {'op': 'tifa'}, {'op': 'run'},
                                {'op': 'verify'}, {'op': 'run'}, {'op': 'tifa'}, {'op': 'verify'}, {'op': 'run'}, {'op': 'next_section'},
                                {'op': 'call'}, {'op': 'evaluate'}, {'op': 'call'}, {'op': 'cait'}, {'op': 'cait'}, {'op': 'stop_sections'}, {'op': 'resolve'},
                                {'op': 'verify_other', 'which': 0}, {'op': 'verify_other', 'which': 1}, {'op': 'verify_other', 'which': 2}, {'op': 'verify_other', 'which': 3}])

    # ------------------------------------------------------------------
    def active_reference(self):
        """(active code as it should be presented, the same code re-positioned in the whole file)."""
        j = self.section
        if j >= len(self.chunks):
            return None, None
        s, e = self.chunks[j]
        if self.setup['independent'] or j == 0:
            code = self.text[s:e]
            positioned = '\n' * len(re.findall(r'\r\n|\r|\n', self.text[:s])) + code
        else:
            code = self.text[:e]
            positioned = code
        return code, positioned

    def apply(self, op):
        from pedal.core.commands import contextualize_report
        from pedal.source import separate_into_sections, next_section, verify, stop_sections
        viol = []
        kind = op['op']
        try:
            if kind == 'setup':
                self.setup = op
                self.text, self.pattern = build_file(op)
                self.marker_spans, self.chunks = reference_split(self.text, self.pattern)
                from pedal.core.submission import Submission
                contextualize_report(Submission(files=dict(HELPER_FILES, **{FILENAME: self.text}), main_file=FILENAME, main_code=self.text))
                if op['pattern'] == 'default':
                    separate_into_sections(independent=op['independent'])
                else:
                    separate_into_sections(pattern=self.pattern, independent=op['independent'])
                self.ready = True
                # work registered for "before the next section starts" (what @phase functions and graders use) still belongs to the
                # section that is active when it runs
                self.hook_seen = []
                self.report.add_hook('source.next_section.before', lambda *a, **k: self.hook_seen.append(self.report.submission.main_code))
                sections = self.report['source']['sections']
                if ''.join(sections) != self.text:
                    viol.append(V('C17|split-lossy', 'sections do not concatenate back to the file: %r vs %r' % (''.join(sections)[-80:], self.text[-80:])))
                self.flags.add('markers=%d' % min(len(self.marker_spans), 3))
                self.check_active(viol, 'after separate_into_sections')
            elif kind == 'next_section':
                before_fb = len([f for f in self.report.feedback if f.label == 'not_enough_sections'])
                leaving, _ = self.active_reference()
                seen_before = len(getattr(self, 'hook_seen', []))
                self.section += 1
                try:
                    next_section()
                    seen = getattr(self, 'hook_seen', [])
                    if leaving is not None and len(seen) == seen_before + 1 and seen[-1] != leaving:
                        viol.append(V('C17|presented-code|before-hook|%s' % self.mode(), 'a source.next_section.before hook saw %r as the program, the section being left is %r'
                                      % (seen[-1][:80], leaving[:80])))
                except Exception as e:
                    tb = traceback.extract_tb(e.__traceback__)[-1]
                    first = 'first' if self.section == len(self.chunks) else 'later'
                    viol.append(V('C17|next_section-raises|%s-past-end' % first if self.section >= len(self.chunks) else 'C17|next_section-raises|in-range',
                                  'next_section() call %d of %d sections raised %s: %s (%s:%s)' % (self.section, len(self.chunks) - 1, type(e).__name__, e, tb.filename, tb.lineno)))
                    return viol
                if self.section >= len(self.chunks):
                    self.flags.add('past-end')
                    after_fb = len([f for f in self.report.feedback if f.label == 'not_enough_sections'])
                    if after_fb != before_fb + 1:
                        viol.append(V('C17|not_enough_sections-missing', 'next_section() call %d with %d sections attached %d not_enough_sections feedbacks'
                                      % (self.section, len(self.chunks) - 1, after_fb - before_fb)))
                else:
                    self.check_active(viol, 'after next_section #%d' % self.section)
            elif kind == 'verify':
                code, positioned = self.active_reference()
                if code is None:
                    return viol
                n0 = len(self.report.feedback)
                verify()
                new = [f for f in self.report.feedback[n0:] if f.label in ('syntax_error', 'indentation_error')]
                try:
                    ast.parse(positioned, FILENAME)
                    want = None
                except SyntaxError as e:
                    want = e.lineno
                if want is None and new:
                    viol.append(V('C17|verify|false-alarm', 'section code parses but a syntax feedback was attached'))
                elif want is not None:
                    if len(new) != 1:
                        viol.append(V('C17|verify|missed', 'section code has a syntax error on file line %d but %d feedbacks attached' % (want, len(new))))
                    else:
                        got = new[0].location.line if new[0].location else None
                        self.note_diag()
                        if got != want:
                            viol.append(V('C17|line|syntax|%s' % self.mode(), 'syntax error is on file line %d, feedback says %r (section %d, %s)'
                                          % (want, got, self.section, self.mode())))
            elif kind == 'verify_other':
                # another text of the grading (a helper file, an instructor snippet) is verified under its own name while a
                # section of the main file is active: its lines are its own
                text = OTHER_TEXTS[op['which'] % len(OTHER_TEXTS)]
                n0 = len(self.report.feedback)
                verify(text, filename='helper.py')
                new = [f for f in self.report.feedback[n0:] if f.label in ('syntax_error', 'indentation_error')]
                try:
                    ast.parse(text, 'helper.py')
                    want = None
                except SyntaxError as e:
                    want = e.lineno
                self.flags.add('other-file-verified-in-section')
                if (want is None) != (not new):
                    viol.append(V('C17|verify-other|presence', 'helper text %r: CPython error line %r, %d syntax feedback attached' % (text, want, len(new))))
                elif want is not None:
                    got = new[0].location.line if new[0].location else None
                    if got != want:
                        viol.append(V('C17|line|syntax-other-file|%s' % self.mode(), 'the helper file has its error on its line %d, feedback says %r (section %d of the main file active, %s)'
                                      % (want, got, self.section, self.mode())))
                verify()        # back to the section itself
            elif kind == 'tifa':
                code, positioned = self.active_reference()
                if code is None and self.section >= len(self.chunks) and self.report.submission.main_code == self.text:
                    code = positioned = self.text      # past the last section: the whole file, with its own line numbers
                    self.flags.add('analysis-past-the-end')
                if code is None:
                    return viol
                try:
                    ast.parse(code)
                except SyntaxError:
                    return viol
                from pedal.tifa.commands import tifa_analysis
                got = issue_lines(tifa_analysis())
                want = reference_tifa(positioned)
                self.restore_after_reference()
                if want is None:
                    return viol
                if got != want:
                    if got:
                        self.note_diag()
                    viol.append(V('C17|line|tifa|%s' % self.mode(), 'TIFA issues inside section %d (%s) are %r; analysing the same code positioned in the whole '
                                                                   'file gives %r' % (self.section, self.mode(), sorted(got)[:6], sorted(want)[:6])))
                elif got:
                    self.note_diag()
            elif kind == 'cait':
                # CAIT is one of "the tools": the tree it works on is the active section's, whatever was verified or matched before
                code, positioned = self.active_reference()
                if code is None:
                    return viol
                try:
                    want = ast.dump(ast.parse(code))
                except (SyntaxError, ValueError):
                    return viol
                from pedal.cait.cait_api import parse_program, find_asts
                tree = parse_program()
                got = ast.dump(tree.astNode)
                self.flags.add('cait-in-section')
                if got != want:
                    viol.append(V('C17|presented-code|cait|%s' % self.mode(), 'CAIT works on a tree that is not the active section %d (%s): it holds %d nodes, the section has %d; '
                                                                             'tree starts %r' % (self.section, self.mode(), len(list(ast.walk(tree.astNode))),
                                                                                                 len(list(ast.walk(ast.parse(code)))), ast.unparse(tree.astNode)[:80])))
                else:
                    n_names = len(find_asts('Name'))
                    n_want = sum(isinstance(n, ast.Name) for n in ast.walk(ast.parse(code)))
                    if n_names != n_want:
                        viol.append(V('C17|presented-code|cait-find|%s' % self.mode(), "find_asts('Name') returns %d nodes in section %d, the section has %d"
                                      % (n_names, self.section, n_want)))
            elif kind == 'run':
                code, positioned = self.active_reference()
                if code is None:
                    return viol
                try:
                    compiled = compile(positioned, FILENAME, 'exec')
                except SyntaxError:
                    return viol
                from pedal.sandbox.commands import get_sandbox
                sb = get_sandbox()
                sb.clear_data()
                ref_lines = None
                with contextlib.redirect_stdout(io.StringIO()):
                    try:
                        exec(compiled, {'__name__': '__main__'})
                    except Exception as e:
                        ref_lines = [fr.lineno for fr in traceback.extract_tb(e.__traceback__) if fr.filename == FILENAME]
                        ref_name = type(e).__name__
                n0 = len(self.report.feedback)
                sb.run()
                new = [f for f in self.report.feedback[n0:] if (f.category or '').lower() == 'runtime']
                if ref_lines is None:
                    if new:
                        viol.append(V('C17|run|false-alarm', 'section %d runs cleanly in plain Python but a runtime feedback %r was attached'
                                      % (self.section, new[0].label)))
                elif len(new) != 1:
                    viol.append(V('C17|run|missed', 'section %d fails in plain Python (%s) but %d runtime feedbacks were attached' % (self.section, ref_name, len(new))))
                else:
                    self.note_diag()
                    fb = new[0]
                    got = fb.location.line if fb.location else None
                    if got != ref_lines[-1]:
                        viol.append(V('C17|line|runtime-location|%s' % self.mode(), '%s raised on file line %d, feedback location says %r (section %d, %s)'
                                      % (ref_name, ref_lines[-1], got, self.section, self.mode())))
                    msg_lines = [int(n) for n in re.findall(r'Line (\d+) of file', str(fb.fields.get('traceback_message') or ''))]
                    if msg_lines != ref_lines[-len(msg_lines):] if msg_lines else bool(ref_lines):
                        viol.append(V('C17|line|runtime-traceback|%s' % self.mode(), '%s traceback lines in the message are %r, plain Python frames are on file lines %r'
                                      % (ref_name, msg_lines, ref_lines)))
            elif kind in ('call', 'evaluate'):
                # a function of the active section fails when the instructor calls it: the location is still a whole-file line
                code, positioned = self.active_reference()
                if code is None:
                    return viol
                try:
                    compiled = compile(positioned, FILENAME, 'exec')
                except SyntaxError:
                    return viol
                ns = {'__name__': '__main__'}
                with contextlib.redirect_stdout(io.StringIO()):
                    try:
                        exec(compiled, ns)
                    except Exception:
                        return viol
                import types
                names = sorted(n for n, v in ns.items() if isinstance(v, types.FunctionType) and n.startswith('f'))
                if not names:
                    return viol
                from pedal.sandbox.commands import get_sandbox
                sb = get_sandbox()
                sb.clear_data()
                sb.run()
                if sb.exception is not None:
                    return viol
                for name in names[:2]:
                    try:
                        ns[name]('text')
                        continue
                    except Exception as e:
                        ref_lines = [fr.lineno for fr in traceback.extract_tb(e.__traceback__) if fr.filename == FILENAME]
                        ref_name = type(e).__name__
                    if not ref_lines:
                        continue
                    n0 = len(self.report.feedback)
                    if kind == 'call':
                        sb.call(name, 'text')
                    else:
                        sb.evaluate('%s(%r)' % (name, 'text'))
                    new = [f for f in self.report.feedback[n0:] if (f.category or '').lower() == 'runtime']
                    self.flags.add('call-in-section')
                    if len(new) != 1:
                        viol.append(V('C17|%s|missed' % kind, '%s(%s) in section %d fails in plain Python (%s) but %d runtime feedbacks were attached'
                                      % (kind, name, self.section, ref_name, len(new))))
                        continue
                    fb = new[0]
                    got = fb.location.line if fb.location else None
                    if got != ref_lines[-1]:
                        viol.append(V('C17|line|%s-location|%s' % (kind, self.mode()), '%s(%s): %s raised on file line %d, feedback location says %r (section %d, %s)'
                                      % (kind, name, ref_name, ref_lines[-1], got, self.section, self.mode())))
                    msg_lines = [int(n) for n in re.findall(r'Line (\d+) of file %s' % re.escape(FILENAME), str(fb.fields.get('traceback_message') or ''))]
                    if msg_lines and msg_lines != ref_lines[-len(msg_lines):]:
                        viol.append(V('C17|line|%s-traceback|%s' % (kind, self.mode()), '%s(%s): traceback lines in the message are %r, plain Python frames are on file lines %r'
                                      % (kind, name, msg_lines, ref_lines)))
            elif kind in ('stop_sections', 'resolve'):
                if kind == 'stop_sections':
                    stop_sections()
                else:
                    from pedal.resolvers.simple import resolve
                    resolve()
                self.stopped = True
                self.flags.add(kind)
                if self.report.submission.main_code != self.text:
                    viol.append(V('C17|not-restored|%s' % kind, 'after %s the main code is %r..., the original file is %r...'
                                  % (kind, self.report.submission.main_code[:60], self.text[:60])))
            elif kind == 'check_restored':
                if self.report.submission.main_code != self.text:
                    viol.append(V('C17|not-restored|later', 'main code differs from the original file after sections were stopped'))
                else:
                    # ... and what is reported about it afterwards carries the original file's line numbers
                    try:
                        ast.parse(self.text)
                        parses = True
                    except (SyntaxError, ValueError):
                        parses = False
                    if parses:
                        from pedal.cait.cait_api import parse_program
                        tree = parse_program()
                        if ast.dump(tree.astNode) != ast.dump(ast.parse(self.text)):
                            viol.append(V('C17|presented-code|cait-after-stop', 'after the sections were stopped CAIT still works on another tree than the whole file: %r'
                                          % ast.unparse(tree.astNode)[:80]))
                        from pedal.tifa.commands import tifa_analysis
                        got = issue_lines(tifa_analysis())
                        want = reference_tifa(self.text)
                        self.restore_after_reference()
                        self.flags.add('analysis-after-stop')
                        if want is not None and got != want:
                            viol.append(V('C17|line|after-stop|%s' % self.mode(), 'TIFA issues on the whole file after the sections were stopped are %r; the same file without sections gives %r'
                                          % (sorted(got)[:6], sorted(want)[:6])))
        except Exception as e:
            tb = traceback.extract_tb(e.__traceback__)[-1]
            viol.append(V('C17|op-raises|%s|%s' % (kind, type(e).__name__), '%s raised %s: %s (%s:%s)' % (kind, type(e).__name__, e, tb.filename, tb.lineno)))
        return viol

    def mode(self):
        return 'independent' if self.setup['independent'] else 'cumulative'

    def note_diag(self):
        if self.section >= 1 and self.marker_spans:
            self.diag_checked_in_later_section = True

    def check_active(self, viol, when):
        code, _ = self.active_reference()
        got = self.report.submission.main_code
        if code is not None and got != code:
            viol.append(V('C17|active-code|%s' % self.mode(), '%s: section %d presented as %r, the constructed %s is %r'
                          % (when, self.section, got[-80:], 'chunk' if self.setup['independent'] else 'prefix', code[-80:])))

    def restore_after_reference(self):
        pass

    def finish(self, viol):
        from pedal.core.report import MAIN_REPORT
        MAIN_REPORT.full_clear()
        seen, out = set(), []
        for v in viol:
            if v.cell not in seen:
                seen.add(v.cell)
                out.append(v)
        return Result(out, self.diag_checked_in_later_section, sorted(self.flags) + ([self.mode()] if self.ready else []))


def issue_lines(result):
    out = set()
    for label, fbs in result.issues.items():
        for f in fbs:
            out.add((label, str(f.fields.get('name')), f.location.line if f.location is not None else None))
    return out


def reference_tifa(positioned):
    """TIFA on the re-positioned text in a separate report (no sections involved)."""
    from pedal.core.report import Report
    from pedal.core.submission import Submission
    from pedal.tifa.commands import tifa_analysis
    try:
        rep = Report()
        rep.contextualize(Submission(files=dict(HELPER_FILES, **{FILENAME: positioned}), main_file=FILENAME))
        return issue_lines(tifa_analysis(report=rep))
    except Exception:
        return None


MACHINES = {'sections': Stepper}


def plan(tier):
    n = 200 if tier == 'quick' else 8000
    return [Task('machine', 'sections', shards=16, examples=scale(n), steps=12)]


def judge(case):
    from vlib.stateful import judge_ops
    return judge_ops(Stepper, 'quick', case['ops'])
