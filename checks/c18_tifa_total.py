"""C18 - TIFA analyses every parsable program, deterministically and idempotently."""
import ast

from hypothesis import strategies as st

from vlib.driver import Result, Task, V
from vlib import gen_code as G
from vlib import gen_cs1 as CS1
from checks.c01_resolver import scale

ID = 'C18'
LEVEL = 'exploration'
RULE = ('(i) any parsable program (G-SYNTAX grammar over all Python 3.12 node kinds, repository corpus incl. small stdlib '
        'files in thorough, AST-mutated corpus): tifa_analysis returns, a second call yields the same {label: [(name, line)]} '
        'and adds no feedback, a fresh report gives the same issues, every issue line lies in the source; (ii) programs of '
        'the introductory subset (G-CS1) and a complete sweep of one-line programs calling every builtin function and every '
        'method pedal declares for str/list/dict/set/int/float/tuple/bool/file: additionally the analysis must complete '
        '(success True). Non-trivial: program has >= 5 AST node kinds; sweep programs are non-trivial by construction. '
        'Distinct = SHA-1 of the program text.')
ASSUMPTIONS = ['for arbitrary-syntax programs an internal failure (success False) is allowed, only raising is not',
               'the introductory subset is what G-CS1 builds (assignments, operators, builtins/methods of numbers, strings, '
               'lists, dicts, branches, loops, function/class definitions, try/except, imports of math/string/sys)']
EXHAUSTIVE_NOTE = 'the builtin/method sweep is enumerated completely; program tasks are sampled'


def issues_of(result):
    out = {}
    for label, fbs in result.issues.items():
        items = []
        for f in fbs:
            line = f.location.line if getattr(f, 'location', None) is not None else None
            items.append((str(f.fields.get('name')), line))
        if items:
            out[label] = sorted(items, key=repr)
    return out


_config = {'html': False}


def fresh_report(code):
    """A cleared main report holding the code, with the formatter of this case (environments such as BlockPy install the HTML one)."""
    from pedal.core.commands import contextualize_report, set_formatter
    from pedal.core.report import MAIN_REPORT
    MAIN_REPORT.full_clear()
    contextualize_report(code)
    if _config['html']:
        from pedal.core.formatting import HtmlFormatter
        set_formatter(HtmlFormatter)
    return MAIN_REPORT


def analyse_fresh(code):
    from pedal.tifa.commands import tifa_analysis
    report = fresh_report(code)
    return tifa_analysis(), report


# programs whose analysis depends on what TIFA believes about a builtin constructor / module / class, and programs that
# could change that belief if type objects were shared between analyses
PAIR_POOL = [
    "items = list()\nitems.append('x')\nprint(items)\n",
    "items = list()\nitems.append(1)\nfor i in items:\n    print(i + 1)\n",
    "d = dict()\nd['k'] = 1.5\nprint(d['k'] + 1)\n",
    "s = set()\ns.add('a')\nprint(s)\n",
    "t = tuple()\nprint(t)\nw = str()\nprint(w + 'a')\n",
    "def f(a: list[int]) -> list[str]:\n    return [str(x) for x in a]\nprint(f([1]))\n",
    "x: dict[str, int] = {}\nx['a'] = 1\nprint(x)\n",
    "v: set[str] = set()\nv.add('q')\nprint(v)\n",
    "def g(p: tuple[int, str]):\n    return p\nprint(g((1, 'a')))\n",
    "names: list[str] = list()\nnames.append('n')\nprint(names)\n",
    "import math\nmath.pi = 'three'\nprint(math.pi)\n",
    "import math\nprint(math.pi + 1, math.floor(2.5))\n",
    "import random\nprint(random.randint(1, 2) + 1)\n",
    "import random\nrandom.randint = 5\nprint(random.randint)\n",
    "text = 'abc'\nprint(text.upper().split())\n",
    "numbers = [1, 2]\nnumbers.append('three')\nprint(numbers)\n",
    "numbers = []\nnumbers.append(3)\nprint(sum(numbers))\n",
    "class Dog:\n    def __init__(self, name: str):\n        self.name = name\nd = Dog('x')\nprint(d.name + '!')\n",
    "class Dog:\n    def __init__(self, age: int):\n        self.age = age\nd = Dog(3)\nprint(d.age + 1)\n",
    "def add(a: int, b: int) -> int:\n    return a + b\nprint(add(1, 2))\n",
    "def add(a: str, b: str) -> str:\n    return a + b\nprint(add('1', '2'))\n",
    "print(int('5') + 1, float('2') + 1.0, str(5) + 'a', bool(0))\n",
    "int = 5\nprint(int + 1)\n",
    "len = 3\nprint(len)\n",
    "print(len('abc') + 1)\n",
    "values = sorted([3, 1])\nprint(values[0] + 1)\nfor v in range(3):\n    print(v)\n",
    "from dataclasses import dataclass\n@dataclass\nclass P:\n    x: int\n    y: list[str]\np = P(1, ['a'])\nprint(p.x + 1, p.y)\n",
    "data = {'a': [1, 2]}\nfor key, value in data.items():\n    print(key + '!', value[0] + 1)\n",
    "open = 1\nprint(open)\n",
    "f = open('data.txt')\nprint(f.read())\n",
    "opts = {}\nprint(sorted(**opts))\n",
    "from dataclasses import dataclass\nwhat = dataclass()\n",
    "n = 3\nsquares = [n * n for n in range(4)]\nprint(squares, n)\n",
    "k = 'a'\nlookup = {k: len(k) for k in ['x', 'yy']}\nbag = {k for k in 'abc'}\nprint(lookup, bag, k, sum(k for k in [1, 2]))\n",
    "items = [3, 1]\nprint(sorted(items), list(reversed(items)), list(filter(None, items)))\n",
    "word = 'abc'\nword.foo = 1\nprint(word)\n",
    "word = 'abc'\nprint(word.foo + 1)\n",
    "count = 5\ncount.label = 'five'\nnums = [1]\nnums.size = 1\n",
    "count = 5\nprint(count.label + '!')\nnums = [1]\nprint(nums.size + 1)\n",
    # a standard module whose import runs a program that ends in sys.exit() (TIFA really imports modules it has no description of)
    # an attribute put on an element of a list of literals / asked of one
    "x = [1]\nx[0].foo = 5\nprint(x)\n",
    "y = [2]\ny[0].foo()\nprint(y)\n",
    "z = [1.5]\nz[0].bar = 'b'\nprint(z)\n",
    "w = [2.5]\nprint(w[0].bar + 1)\n",
    "import unittest.__main__\n",
    "box = []\nbox.append(box)\ntotal = box + 1\n",
    "'abc'.upper()\n[1, 2].pop()\n",
]


HISTORY_OTHERS = ['other_unused_name = 1\n', 'opts = {}\nprint(sorted(**opts))\n', 'from dataclasses import dataclass\nwhat = dataclass()\n',
                  'def f(a):\n    return f(a)\nf(1)\n', "word = 'abc'\nword.foo = 1\n", 'print(reversed(**{}))\nprint(filter())\n', 'x = (1\n']


def judge_pair(case):
    """Runs in a forked child: the first analysis of P is the process's first TIFA run."""
    p, q = PAIR_POOL[case['p']], PAIR_POOL[case['q']]
    classes = ['cross-history-pair']
    try:
        r1, _ = analyse_fresh(p)
        i1, s1 = issues_of(r1), r1.success
        for _ in range(case.get('repeat', 1)):
            analyse_fresh(q)
        r3, _ = analyse_fresh(p)
    except BaseException as e:
        import traceback
        tb = traceback.extract_tb(e.__traceback__)[-1]
        return Result([V('C18|raises:%s@%s' % (type(e).__name__, tb.name), 'tifa_analysis raised %r (%s:%s) for the pair %r / %r' % (e, tb.filename, tb.lineno, p, q))], True, classes)
    viol = []
    if issues_of(r3) != i1 or r3.success != s1:
        viol.append(V('C18|non-deterministic|after-analysing-another-program',
                      'first analysis in the process gives %r (success %r); after analysing\n%s\nthe same code in a fresh report gives %r (success %r); code:\n%s'
                      % (i1, s1, q, issues_of(r3), r3.success, p)))
    return Result(viol, p != q, classes)


def pairs(tier):
    n = len(PAIR_POOL)
    for i in range(n):
        for j in range(n):
            yield {'pair': True, 'p': i, 'q': j}


def judge(case):
    _config['html'] = bool(case.get('html'))
    if case.get('pair'):
        return judge_pair(case)
    code = case['code']
    must_complete = case.get('must_complete', False)
    tag = case.get('tag', 'program')
    try:
        tree = ast.parse(code)
    except Exception:
        return Result([], False, ['unparsable-skipped'], ambiguous=1)
    kinds = {type(n).__name__ for n in ast.walk(tree)}
    nontrivial = len(kinds) >= 5 or tag != 'program'
    viol, classes = [], [tag.split('=')[0] if tag != 'program' else ('cs1-program' if must_complete else 'any-program')]
    if case.get('html'):
        classes.append('html-formatter')
    from pedal.tifa.commands import tifa_analysis
    from pedal.tifa.tifa_core import TifaAnalysis
    try:
        r1, report = analyse_fresh(code)
    except BaseException as e:
        import traceback
        tb = traceback.extract_tb(e.__traceback__)[-1]
        return Result([V('C18|raises:%s@%s' % (type(e).__name__, tb.name), 'tifa_analysis raised %s: %s (%s:%s) on\n%s'
                         % (type(e).__name__, e, tb.filename, tb.lineno, code[:400]))], nontrivial, classes)
    if not isinstance(r1, TifaAnalysis):
        return Result([V('C18|not-an-analysis', 'tifa_analysis returned %r' % (r1,))], nontrivial, classes)
    i1 = issues_of(r1)
    n_fb = len(report.feedback) + len(report.ignored_feedback)
    try:
        r2 = tifa_analysis()
        i2 = issues_of(r2)
        n_fb2 = len(report.feedback) + len(report.ignored_feedback)
        if i2 != i1:
            viol.append(V('C18|not-idempotent|issues', 'second analysis of the same code gives %r, first gave %r' % (i2, i1)))
        if n_fb2 != n_fb:
            viol.append(V('C18|not-idempotent|feedback-added', 'second analysis attached %d more feedback objects' % (n_fb2 - n_fb)))
        r3 = tifa_analysis(code)
        if issues_of(r3) != i1 or len(report.feedback) + len(report.ignored_feedback) != n_fb:
            viol.append(V('C18|not-idempotent|explicit-code', 'tifa_analysis(code) after tifa_analysis() differs'))
        # another program in between must not make the first one be analysed (and reported) again
        tifa_analysis('other_unused_name = 1\n')
        n_mid = len(report.feedback) + len(report.ignored_feedback)
        r5 = tifa_analysis(code)
        if issues_of(r5) != i1 or len(report.feedback) + len(report.ignored_feedback) != n_mid:
            viol.append(V('C18|not-idempotent|after-other-code', 'analysing the code again after another program attached %d more '
                                                                 'feedback objects / changed the issues'
                          % (len(report.feedback) + len(report.ignored_feedback) - n_mid)))
        # the same program further down in its text (leading blank lines) is another text: its issues are on its own lines
        pad = 3
        r7 = tifa_analysis('\n' * pad + code)
        moved = {label: sorted(((name, (line + pad) if line is not None else None) for name, line in items), key=repr) for label, items in i1.items()}
        if r7.success == r1.success and issues_of(r7) != moved:
            got7 = issues_of(r7)
            label = next((l for l in set(got7) | set(moved) if got7.get(l) != moved.get(l)), '?')
            viol.append(V('C18|padded-text-answered-from-another-text|%s' % label, 'the program behind %d blank lines, analysed on the report that analysed it without them, gives %r; expected %r'
                          % (pad, got7.get(label), moved.get(label))))
    except BaseException as e:
        viol.append(V('C18|raises-on-repeat:%s' % type(e).__name__, 'second tifa_analysis raised %r' % e))
    try:
        # history: another program first, then this one twice in the same report
        # ... including programs on which the analysis itself fails half-way (inside the definition of a builtin, of a decorator)
        import zlib
        other = HISTORY_OTHERS[zlib.crc32(code.encode('utf8', 'replace')) % len(HISTORY_OTHERS)]
        _, rep2 = analyse_fresh(other)
        ra = tifa_analysis(code)
        n_a = len(rep2.feedback) + len(rep2.ignored_feedback)
        rb = tifa_analysis(code)
        if issues_of(ra) != i1:
            viol.append(V('C18|non-deterministic|after-other-code', 'after another program the issues are %r, alone %r' % (issues_of(ra), i1)))
        if issues_of(rb) != i1 or len(rep2.feedback) + len(rep2.ignored_feedback) != n_a:
            viol.append(V('C18|not-idempotent|second-program', 'repeating the analysis of the second program of a report attached %d more '
                                                               'feedback objects' % (len(rep2.feedback) + len(rep2.ignored_feedback) - n_a)))
        r4, _ = analyse_fresh(code)
        if issues_of(r4) != i1 or r4.success != r1.success:
            viol.append(V('C18|non-deterministic', 'fresh report gives %r (success %r), before %r (success %r); code:\n%s'
                          % (issues_of(r4), r4.success, i1, r1.success, code[:300])))
    except BaseException as e:
        viol.append(V('C18|raises-on-repeat:%s' % type(e).__name__, 'analysis in a fresh report raised %r' % e))
    # the same analysis with the submission placed further down a file (what sections do): every line moves by exactly the offset
    try:
        offset = 7
        _R = fresh_report(code)
        _R.submission.set_line_offset(offset)
        r6 = tifa_analysis()
        shifted = {label: sorted(((name, (line + offset) if line is not None else None) for name, line in items), key=repr) for label, items in i1.items()}
        if r6.success == r1.success and issues_of(r6) != shifted:
            got6 = issues_of(r6)
            label = next((l for l in set(got6) | set(shifted) if got6.get(l) != shifted.get(l)), '?')
            viol.append(V('C18|line-offset-not-uniform|%s' % label, 'with a line offset of %d the issues are %r; without offset %r; code:\n%s'
                          % (offset, got6.get(label), i1.get(label), code[:300])))
        classes.append('with-line-offset')
    except BaseException as e:
        viol.append(V('C18|raises-on-repeat:%s' % type(e).__name__, 'analysis with a line offset raised %r' % e))
    n_lines = max(len(code.splitlines()), 1)
    for label, items in i1.items():
        for name, line in items:
            if line is not None and not (1 <= line <= n_lines):
                viol.append(V('C18|line-out-of-range|%s' % label, 'issue %s(%s) reports line %r, source has %d lines' % (label, name, line, n_lines)))
                break
    if not r1.success:
        classes.append('internal-failure')
        if must_complete:
            err = r1.error
            if tag == 'program':
                cell = 'C18|internal-failure|%s:%s' % (type(err).__name__, str(err)[:40])
            else:
                cell = 'C18|internal-failure|%s' % tag
            viol.append(V(cell, 'analysis of an introductory program did not complete: %s: %s; code:\n%s'
                          % (type(err).__name__, err, code[-500:])))
    else:
        classes.append('completed')
    from pedal.core.report import MAIN_REPORT
    MAIN_REPORT.full_clear()
    return Result(viol, nontrivial, classes)


# ---------------------------------------------------------------------------------------------------------
ARGS = {  # plausible arguments for builtin functions
    'abs': ['-3'], 'all': ['[True, False]'], 'any': ['[0, 1]'], 'ascii': ["'é'"], 'bin': ['5'], 'callable': ['len'], 'chr': ['65'],
    'dir': ['[]', ''], 'divmod': ['7, 2'], 'enumerate': ["['a', 'b']"], 'filter': ['None, [0, 1, 2]', 'lambda v: v > 1, [1, 2, 3]'],
    'format': ['3.14159, ".2f"'], 'getattr': ["'abc', 'upper'"], 'hasattr': ["'abc', 'upper'"], 'hash': ["'abc'"], 'hex': ['255'],
    'id': ['[]'], 'input': ["'prompt'", ''], 'isinstance': ['5, int'], 'issubclass': ['bool, int'], 'iter': ['[1, 2]'], 'len': ["'abc'", '[1]'],
    'map': ['str, [1, 2]'], 'max': ['[1, 5, 2]', '1, 2'], 'min': ['[1, 5, 2]', "'b', 'a'"], 'next': ['iter([1])'], 'oct': ['8'],
    'open': ["'file.txt'"], 'ord': ["'a'"], 'pow': ['2, 3'], 'print': ["'a', 1", ''], 'range': ['3', '1, 5', '0, 10, 2'], 'repr': ['[1]'],
    'reversed': ['[1, 2, 3]', "'abc'"], 'round': ['2.567', '2.567, 1'], 'sorted': ['[3, 1, 2]', "'cab'"], 'sum': ['[1, 2, 3]'],
    'zip': ['[1, 2], "ab"'], 'int': ["'5'", '3.2'], 'float': ["'2.5'", '3'], 'bool': ['0'], 'str': ['12', ''], 'list': ["'abc'", ''],
    'set': ['[1, 1]', ''], 'frozenset': ['[1]'], 'dict': ['', "[('a', 1)]"], 'tuple': ['[1, 2]'], 'type': ['5'], '__import__': ["'math'"],
    'vars': ['int'], 'locals': [''], 'globals': [''], 'help': ['len'], 'setattr': ["object, 'a', 1"], 'delattr': ["object, 'a'"],
    'staticmethod': ['len'], 'classmethod': ['len'], 'super': [''], 'Exception': ["'msg'"], 'ValueError': ["'msg'"],
}
RECEIVERS = {'StrType': "'a b c'", 'ListType': '[3, 1, 2]', 'DictType': "{'a': 1, 'b': 2}", 'SetType': '{1, 2}', 'IntType': '5',
             'FloatType': '2.5', 'TupleType': "(1, 'a')", 'BoolType': 'True', 'FileType': "open('data.txt')", 'NumType': 'abs(-2)'}
METHOD_ARGS = ['', "'a'", '1', '[4]', "'a', 'b'", '0, 9', "{'z': 3}", "'a', 1"]


NESTED_CONTAINERS = ["[{'title': 'Dune', 'price': 9.5}, {'title': 'Emma', 'price': 7.0}]", "{'first': {'n': 1, 's': 'x'}}", "[{'k': 1}]", "[(1, 'a'), (2, 'b')]",
                     "{1: 'a', 'b': 2.5}", '[[1, 2], []]', '[{}]', "({'x': 1, 'y': 'z'},)", '{(1, 2): [1.5]}', '[None, 1]', "{'s': {1, 2}, 't': [1]}",
                     "{'a': 1, 'b': 2}", "[{'name': 'x', 'tags': ['a'], 'n': None}]", "{'rows': [{'id': 1, 'ok': True}]}", '[[{1: 2.5, 2: "s"}]]']
MISUSES = ["result = 'text: ' + VALUE\nprint(result)", 'result = VALUE + 1\nprint(result)', 'print(VALUE < 3)', 'VALUE()', "print(len(VALUE) + 'a')",
           'for item in VALUE:\n    print(item + 1)', 'print(-VALUE)', "print(VALUE[0] + 'x')", 'def use(p: int):\n    return p\nuse(VALUE)',
           'def give() -> str:\n    return VALUE\nprint(give())', 'print(1 in VALUE + 1)']


def sweep(tier):
    from pedal.types import builtin as B
    from pedal.types import new_types as NT
    names = sorted(n for n in B.BUILTIN_NAMES if n not in B.BUILT_EXCEPTION_NAMES and n != '__name__')
    for name in names:
        for args in ARGS.get(name, ['', '1']):
            yield {'code': 'value = %s(%s)\nprint(value)\n' % (name, args), 'must_complete': True, 'tag': 'builtin=%s' % name}
        yield {'code': 'for item in [%s(%s)]:\n    print(item)\n' % (name, ARGS.get(name, [''])[0]), 'must_complete': True, 'tag': 'builtin=%s' % name}
    for tname, lit in sorted(RECEIVERS.items()):
        cls = getattr(NT, tname, None)
        if cls is None:
            continue
        try:
            inst = cls() if tname not in ('ListType', 'SetType') else cls(False, NT.IntType())
            fields = sorted(set(inst.list_fields()))
        except Exception:
            fields = []
        for m in fields:
            for args in METHOD_ARGS:
                yield {'code': 'target = %s\nresult = target.%s(%s)\nprint(result)\n' % (lit, m, args), 'must_complete': True,
                       'tag': 'method=%s.%s' % (tname, m)}
            # the same method on the literal itself, result thrown away, messages rendered by the HTML formatter
            yield {'code': '%s.%s(%s)\n' % ('(5)' if lit == '5' else lit, m, METHOD_ARGS[1]), 'must_complete': True, 'tag': 'method=%s.%s' % (tname, m), 'html': True}
    # type errors that make TIFA put the name of a (nested) container type into a message
    for c_i, container in enumerate(NESTED_CONTAINERS):
        for m_i, misuse in enumerate(MISUSES):
            code = 'value = %s\n%s\n' % (container, misuse.replace('VALUE', 'value'))
            case = {'code': code, 'must_complete': True, 'tag': 'type-name=%d' % c_i}
            if (c_i + m_i) % 2:
                case['html'] = True
            yield case
    extra = ['import math\nprint(math.sqrt(2), math.pi, math.floor(2.5))\n', 'import random\nprint(random.randint(1, 6))\n',
             'import string\nprint(string.ascii_letters)\n', 'import sys\nsys.stdout.write("x")\n', 'from math import *\nprint(sqrt(4))\n',
             'import os\nprint(os.getcwd())\n', 'x = [1, 2, 3]\nfor i, v in enumerate(x):\n    print(i, v)\n',
             'd = {}\nfor k, v in d.items():\n    print(k, v)\n', 'words = "a b".split()\nprint(sorted(words)[0].upper())\n',
             'def f(a, b=2, *c, **d):\n    return a\nprint(f(1))\n', 'x = (5).bit_length()\nprint(x)\n', 'n = 5\nprint(n.bit_length())\n',
             'total = 0\nfor ch in reversed("abc"):\n    total += ord(ch)\nprint(total)\n', 'print(list(filter(None, [0, 1])))\n',
             'm = __import__("math")\nprint(m.pi)\n', 'vals = sorted([3, 1], reverse=True)\nprint(vals[0])\n',
             # results that are thrown away, on receivers that are not names
             "'abc'.upper()\n", '[1, 2].pop()\n', "{'a': 1}.get('a')\n", "print('a b'.split()[0].upper())\n'a b'.split()[0].upper()\n",
             '(lambda a: a)(1)\n', 'len("abc")\n',
             # a list that contains itself
             'box = []\nbox.append(box)\ntotal = box + 1\n', 'box = []\nbox.append(box)\nprint(box[0][0])\nfor b in box:\n    print(b + 1)\n']
    for code in extra:
        yield {'code': code, 'must_complete': True, 'tag': 'program'}
        yield {'code': code, 'must_complete': True, 'tag': 'program', 'html': True}


def corpus_cases(tier):
    for code in G.corpus(stdlib=(tier == 'thorough')):
        yield {'code': code}
    for code in PAIR_POOL:          # the hand-written corner programs also go through the single-program oracles
        yield {'code': code, 'must_complete': False, 'tag': 'program'}


ENUMS = {'sweep': sweep, 'corpus': corpus_cases, 'pairs': pairs}


def programs(tier):
    return st.one_of(G.syntax_program(), G.syntax_program(depth=1, max_statements=12), G.mutated_corpus_program()).map(lambda c: {'code': c})


def cs1(tier):
    return st.tuples(CS1.cs1_program(), st.booleans()).map(lambda t: dict({'code': t[0]['code'], 'must_complete': True, 'tag': 'program'}, **({'html': True} if t[1] else {})))


STRATEGIES = {'programs': programs, 'cs1': cs1}


def plan(tier):
    k = 1 if tier == 'quick' else 40
    return [Task('hyp', 'programs', shards=6, examples=scale(300 * k)), Task('hyp', 'cs1', shards=6, examples=scale(250 * k)),
            Task('enum', 'sweep', shards=2), Task('enum', 'corpus', shards=2), Task('enum', 'pairs', shards=8, isolate=True, timeout=60)]
