"""C13 - grading a submission is independent of what the process graded before it."""
import json
import os
import subprocess
import sys
import time

from hypothesis import strategies as st

from vlib.driver import Result, Task, V, HERE
from checks.c01_resolver import scale

ID = 'C13'
LEVEL = 'exploration'
RULE = ('A pool of (instructor script, submission, environment) triples is composed deterministically from the seed out of '
        'script fragments: state-changing preludes (suppress by category/label, X.override() on core and tool feedback '
        'classes incl. parent+child, override_for_pool, set_formatter(HtmlFormatter), mock/block functions and modules, '
        'set_input, tifa_provide_module_type, start_trace, hide_correctness, separate_into_sections + next_section without '
        'stopping), body fragments (runtime assertions, unit_test, ensure/prevent, find_matches, TIFA queries, explain/gently/'
        'compliment/give_partial/set_correct), a crash after producing feedback, an early resolve(); submissions correct / '
        'wrong / raising / syntactically broken / printing / reading input / sectioned; environments standard, blockpy, '
        'terminal. Reference of each triple = pedal\'s own Bundle runner executed alone in a fresh interpreter. Hypothesis '
        'generates histories (2-8 gradings with repetition) run in one forked process; after every step (label, title, '
        'message, correct, score, output, error class and text) must equal the reference, and the same triple twice in a row '
        'must agree. Non-trivial: a state-changing fragment occurs before a later step. Distinct = SHA-1 of the history.')
ASSUMPTIONS = ['only fragments built from pedal\'s public API are generated; a script that monkey-patches pedal can defeat any '
               'in-process isolation and is outside the domain',
               'the vpl environment cannot be driven through Bundle at this commit (TypeError on "threaded") and environment=None '
               'is not an environment; both are left out',
               'set_pools with more than one pool picks at random and is not generated']
REGRESS_ISOLATE = True
MIN_NONTRIVIAL = {'quick': 20, 'thorough': 20}

SUBMISSIONS = {
    'correct': "def add(a, b):\n    return a + b\ntotal = add(1, 2)\nprint(total)\n",
    'wrong': "def add(a, b):\n    return a - b\ntotal = add(1, 2)\nprint(total)\n",
    'raising': "def add(a, b):\n    return a + b\nprint(add(1, 2))\nprint(1 / 0)\n",
    'syntax': "def add(a, b)\n    return a + b\n",
    'printing': "def add(a, b):\n    print('adding', a, b)\n    return a + b\nfor i in range(3):\n    print(add(i, i))\nunused_thing = 4\n",
    'input': "def add(a, b):\n    return a + b\nname = input('name?')\nprint('hi', name, add(1, 2))\n",
    'sectioned': "import math\n##### Part 1\ndef add(a, b):\n    return a + b\nprint(add(1, 2))\n##### Part 2\nprint(math.floor(2.5))\nprint(undefined_name)\n",
 'turtle-assign': "import turtle\nturtle.forward = 100\nprint('assigned')\n",
    'turtle-use': "import turtle\nturtle.forward(100)\nturtle.right(90)\nprint('moved')\n",
    'math-assign': "import math\nmath.tau = 'overwritten by a student'\nprint(math.tau)\n",
    'math-use': "import math\ndef add(a, b):\n    return a + b\nprint(math.tau, add(1, 2))\n",
    # a module that pedal itself never loads and that keeps state at module level: imported afresh by every execution
    # a third-party module that pedal knows (no real import during analysis) but never loads itself, and that counts at module level:
    # it is imported afresh by every execution
    'bakery-count': "from bakery import assert_equal, student_tests\ndef add(a, b):\n    return a + b\nassert_equal(add(1, 2), 3)\nassert_equal(add(1, 1), 3)\nprint('tests so far', student_tests.tests, student_tests.failures)\n",
    'bakery-read': "import bakery\ndef add(a, b):\n    return a + b\nprint('tests so far', bakery.student_tests.tests, add(1, 2))\n",
    # submissions of two files: the second file has the same name in both and different contents; the function imports it when called
    'helper-a': {'answer.py': "def total(values):\n    import helper\n    return helper.combine(values)\nprint(total([1, 2, 3]))\n",
                 'helper.py': "def combine(values):\n    return sum(values)\n"},
    'helper-b': {'answer.py': "def total(values):\n    import helper\n    return helper.combine(values)\nprint(total([1, 2, 3]))\n",
                 'helper.py': "def combine(values):\n    return len(values)\n"},
    'uses-len': "def add(a, b):\n    return a + b\nwords = ['a', 'bb']\nprint(len(words), sum([1, 2]), add(1, 2))\n",
}
PRELUDES = {   # name: (code, leaky?)
    'none': ('', False),
    'suppress-category': ("suppress('algorithmic')\nsuppress('runtime')\n", True),
    'suppress-label': ("suppress(label='unused_variable')\nsuppress('specification', 'assert_equal')\n", True),
    'override-core': ("from pedal.core.feedback import Feedback\nFeedback.override(title='BASE OVERRIDE')\nexplain.override(title='CHILD OVERRIDE')\n", True),
    'override-tool': ("from pedal.tifa.feedbacks import unused_variable\nfrom pedal.assertions.runtime import assert_equal as _ae\nunused_variable.override(muted=False, priority='highest', title='UNUSED!')\n_ae.override(title='EQ OVERRIDE')\n", True),
    'override-twice': ("from pedal.core.commands import set_correct as _sc\n_sc.override(message_template='First wording.')\n_sc.override(message_template='Second wording.', title='Twice')\n"
                       "explain.override(title='T1')\nexplain.override(title='T2', priority='high')\n", True),
    'override-runtime': ("from pedal.sandbox.feedbacks import runtime_error as _re\nfrom pedal.source.feedbacks import syntax_error as _se\n"
                         "_re.override(message_template='Custom runtime text: {exception_name}')\n_se.override(message_template='Custom syntax text')\n", True),
    'override-pool': ("MAIN_REPORT.set_pools(['A'])\nexplain.override_for_pool('A', title='POOL TITLE')\ngently.override_for_pool('A', message='POOL MESSAGE')\n", True),
    'formatter': ("from pedal.core.formatting import HtmlFormatter\nset_formatter(HtmlFormatter)\n", True),
    'mock-function': ("get_sandbox().mock_function('len', lambda x: 99)\nget_sandbox().block_function('sum')\nrun()\n", True),
    'mock-module': ("get_sandbox().block_module('math')\nrun()\n", True),
    'set-input': ("set_input(['Ada', 'Bob'])\nrun()\n", True),
    'tifa-module': ("from pedal.tifa.commands import tifa_provide_module_type\ntifa_provide_module_type('mymod', {'f': 'int'})\n", True),
    'trace': ("start_trace()\nrun()\n", True),
    'hide': ("hide_correctness()\n", True),
    'sections': ("separate_into_sections()\nnext_section()\nverify()\n", True),
    # the instructor looks at a second text (a reference solution, another file) in a report of its own, section by section;
    # nothing resolves that report, so nothing stops its sections
    'sections-other-report': ("from pedal.core.report import Report as _Report\nfrom pedal.core.submission import Submission as _Submission\n_second = _Report()\n"
                              "contextualize_report(_Submission(main_code='a = 1\\nb = 2\\n##### Part 1\\nc = 3\\n##### Part 2\\nd = 4\\n', main_file='answer.py'), report=_second)\n"
                              "separate_into_sections(report=_second)\nnext_section(report=_second)\nnext_section(report=_second)\n", True),
    'clear-output': ("clear_output()\nget_sandbox().clear_data()\nrun()\n", True),
}
BODIES = {
    'assert-add': "assert_equal(call('add', 1, 2), 3)\n",
    'unit-test': "unit_test('add', ([1, 2], 3), ([0, 0], 0), ([5, -5], 0))\n",
    'assert-output': "assert_output(student, '3')\n",
    'ensure-print': "ensure_function_call('print')\nprevent_operation('-')\n",
    'matches': "if find_matches('_a_ + _b_'):\n    gently('You used a plus.', label='used_plus')\n",
    'tifa': "from pedal.tifa.commands import tifa_analysis\ntifa_analysis()\n",
    'explain': "explain('Instructor says no.', label='says_no')\n",
    'gently': "gently('A gentle hint.', label='hint')\n",
    'compliment': "compliment('Nice function!')\n",
    'partial': "give_partial(0.25)\ngive_partial('10%')\n",
    'correct-if-ok': "if not get_exception():\n    set_correct()\n",
    'output-check': "if 'hi' in ''.join(get_output()):\n    compliment('You greeted.')\n",
    # the instructor takes the student's function object out of the namespace and calls it directly
    'direct-call': "fn = get_student_data().get('total')\nif fn is not None:\n    got = fn([4, 5, 6])\n    if got != 15:\n        gently('total([4, 5, 6]) gave %r' % (got,), label='direct_total_wrong')\n    else:\n        compliment('total works')\n",
    'turtle-sides': "sides = [c for c in get_module('turtles').calls if c[0] in ('forward', 'fd', 'right', 'left')]\nif len(sides) < 2:\n    gently('I only saw your turtle move %d times.' % len(sides), label='few_turtle_calls')\nelse:\n    compliment('The turtle moved %d times.' % len(sides))\n",
    'has-len': "ensure_function_call('len')\nassert_equal(evaluate('len([1, 2, 3])'), 3)\n",
}
TAILS = {'none': '', 'crash': "raise RuntimeError('instructor script crashed')\n", 'early-resolve': "resolve()\n",
         'crash-after-override': "explain.override(title='LEFT BEHIND')\nraise KeyError('crash after override')\n"}
ENVIRONMENTS = ['standard', 'blockpy', 'terminal']


def lcg(state):
    return (state * 6364136223846793005 + 1442695040888963407) % (2 ** 64)


def build_pool(seed, n):
    pool = []
    s = (seed * 2654435761 + 12345) % (2 ** 64)
    pre_names, body_names, tail_names, sub_names = sorted(PRELUDES), sorted(BODIES), sorted(TAILS), sorted(SUBMISSIONS)
    for i in range(n):
        s = lcg(s)
        pre = [pre_names[(s >> 8) % len(pre_names)]]
        s = lcg(s)
        if (s >> 10) % 3 == 0:
            pre.append(pre_names[(s >> 20) % len(pre_names)])
        s = lcg(s)
        nb = 1 + (s >> 12) % 3
        bodies = []
        for _ in range(nb):
            s = lcg(s)
            bodies.append(body_names[(s >> 9) % len(body_names)])
        s = lcg(s)
        tail = tail_names[(s >> 14) % len(tail_names)] if (s >> 30) % 3 == 0 else 'none'
        s = lcg(s)
        sub = sub_names[(s >> 11) % len(sub_names)]
        s = lcg(s)
        env = ENVIRONMENTS[(s >> 13) % len(ENVIRONMENTS)]
        # make sure every prelude and every submission occurs at least once in a pool of >= 24
        if i < len(pre_names):
            pre[0] = pre_names[i]
        if i < len(sub_names):
            sub = sub_names[i]
        # a body that looks at what a mocked module recorded goes with a submission that uses that module
        if sub in ('turtle-use', 'turtle-assign') and 'turtle-sides' not in bodies:
            bodies = bodies + ['turtle-sides']
        if sub in ('helper-a', 'helper-b') and 'direct-call' not in bodies:
            bodies = bodies + ['direct-call']
        script = 'from pedal import *\n' + ''.join(PRELUDES[p][0] for p in pre) + ''.join(BODIES[b] for b in bodies) + TAILS[tail]
        leaky = any(PRELUDES[p][1] for p in pre) or tail != 'none' or sub in ('turtle-assign', 'math-assign', 'bakery-count', 'helper-a', 'helper-b')
        pool.append({'script': script, 'code': SUBMISSIONS[sub], 'env': env, 'tags': pre + bodies + [tail, sub, env], 'leaky': leaky})
    return pool


def references(seed, n):
    """Reference observables, one fresh interpreter per triple, computed once per run (file cache with a lock)."""
    import fcntl
    work = os.path.join(HERE, '.work')
    os.makedirs(work, exist_ok=True)
    repo = os.environ.get('VERIF_REPO', '/repo')
    stamp = '%d_%d_%s' % (seed, n, os.environ.get('VERIF_RUN_ID', str(os.getpid())))
    cache = os.path.join(work, 'c13_ref_%s.json' % stamp)
    with open(cache + '.lock', 'w') as lock:
        fcntl.flock(lock, fcntl.LOCK_EX)
        if os.path.exists(cache):
            with open(cache) as f:
                return json.load(f)
        pool = build_pool(seed, n)
        from concurrent.futures import ThreadPoolExecutor
        env = dict(os.environ, PYTHONPATH=os.pathsep.join([repo, HERE]), PYTHONHASHSEED='0')

        def one(i):
            inp = os.path.join(work, 'c13_in_%s_%d.json' % (stamp, i))
            out = os.path.join(work, 'c13_out_%s_%d.json' % (stamp, i))
            with open(inp, 'w') as f:
                json.dump([{'script': pool[i]['script'], 'code': pool[i]['code'], 'env': pool[i]['env']}], f)
            subprocess.run([sys.executable, '-W', 'ignore', os.path.join(HERE, 'tools', 'c13_grade.py'), inp, out], env=env,
                           stdin=subprocess.DEVNULL, stdout=subprocess.DEVNULL, stderr=subprocess.DEVNULL, timeout=120, cwd=work)
            try:
                with open(out) as f:
                    res = json.load(f)[0]
            except Exception:
                res = {'harness_error': 'no result from fresh interpreter'}
            for p in (inp, out):
                try:
                    os.remove(p)
                except OSError:
                    pass
            return res
        with ThreadPoolExecutor(max_workers=8) as ex:
            refs = list(ex.map(one, range(n)))
        with open(cache + '.tmp', 'w') as f:
            json.dump(refs, f)
        os.replace(cache + '.tmp', cache)
        return refs


def judge(case):
    """Runs in a forked child: the whole history in one process."""
    sys.path.insert(0, HERE)
    from tools.c13_grade import observable
    seed, n, history = case['pool_seed'], case['pool_size'], case['history']
    pool = build_pool(seed, n)
    refs = references(seed, n)
    viol, classes = [], []
    previous = None
    leaky_seen_at = None
    for step, idx in enumerate(history):
        t = pool[idx % n]
        ref = refs[idx % n]
        if 'harness_error' in ref:
            return Result([], False, ['reference-unavailable'], ambiguous=1)
        try:
            got = observable(t['script'], t['code'], t['env'])
        except BaseException as e:
            viol.append(V('C13|grading-raises:%s' % type(e).__name__, 'step %d (%r) raised %r out of the grading run; history tags %r'
                          % (step, t['tags'], e, [pool[i % n]['tags'] for i in history[:step]])))
            break
        if got != ref:
            field = next(k for k in sorted(set(ref) | set(got)) if got.get(k) != ref.get(k))
            earlier = [pool[i % n]['tags'] for i in history[:step]]
            culprit = find_culprit(pool, refs, [i % n for i in history[:step]], idx % n)
            cell = 'C13|differs-from-fresh-interpreter|after=%s|field=%s' % (culprit, field)
            if culprit == 'student-mutates-real-module':
                cell = 'C13|differs-from-fresh-interpreter|after=student-mutates-real-module'
            viol.append(V(cell,
                          'step %d grades %r: %s = %r, alone in a fresh interpreter it is %r; earlier gradings in this process: %r'
                          % (step, t['tags'], field, got.get(field), ref.get(field), earlier)))
            break
        if previous is not None and previous[0] == idx % n and previous[1] != got:
            viol.append(V('C13|same-pair-twice-differs', 'the same triple graded twice in a row gave different results'))
            break
        previous = (idx % n, got)
        if t['leaky'] and leaky_seen_at is None:
            leaky_seen_at = step
        for tag in t['tags'][:2]:
            classes.append('prelude=' + tag) if tag in PRELUDES else None
    nontrivial = leaky_seen_at is not None and leaky_seen_at < len(history) - 1
    return Result(viol, nontrivial, sorted(set(classes)) + ['history-length=%d' % len(history)])


def find_culprit(pool, refs, earlier, current):
    """Root-cause key: the single earlier grading after which `current` already differs.  Each trial is a fresh interpreter
    grading [k, current] in sequence (the history's own process is already polluted and cannot be used)."""
    if 'math-use' in pool[current]['tags'] and any('math-assign' in pool[k]['tags'] for k in earlier):
        return 'student-mutates-real-module'
    work = os.path.join(HERE, '.work')
    repo = os.environ.get('VERIF_REPO', '/repo')
    env = dict(os.environ, PYTHONPATH=os.pathsep.join([repo, HERE]), PYTHONHASHSEED='0')
    for k in dict.fromkeys(reversed(earlier)):
        inp = os.path.join(work, 'c13_cul_%d_%d_%d.json' % (os.getpid(), k, current))
        out = inp + '.out'
        with open(inp, 'w') as f:
            json.dump([{'script': pool[i]['script'], 'code': pool[i]['code'], 'env': pool[i]['env']} for i in (k, current)], f)
        try:
            subprocess.run([sys.executable, '-W', 'ignore', os.path.join(HERE, 'tools', 'c13_grade.py'), inp, out], env=env, stdin=subprocess.DEVNULL,
                           stdout=subprocess.DEVNULL, stderr=subprocess.DEVNULL, timeout=120, cwd=work)
            with open(out) as f:
                second = json.load(f)[1]
        except Exception:
            second = None
        for p in (inp, out):
            try:
                os.remove(p)
            except OSError:
                pass
        if second is not None and second != refs[current]:
            tags = pool[k]['tags']
            leaky = [t for t in tags if (t in PRELUDES and PRELUDES[t][1]) or (t in TAILS and t != 'none')]
            return '+'.join(leaky) or 'plain:' + '+'.join(tags[:2])
    return 'needs-several-earlier-gradings'


def histories(tier):
    n = 48 if tier == 'quick' else 200
    seed = int(os.environ.get('VERIF_SEED', '1') or 1)
    return st.lists(st.integers(0, n - 1), min_size=2, max_size=8).map(lambda h: {'pool_seed': seed, 'pool_size': n, 'history': h})


def pairs(tier):
    """Every ordered pair (leaky triple, any triple) at least once: the smallest histories that can show a leak."""
    n = 48 if tier == 'quick' else 200
    seed = int(os.environ.get('VERIF_SEED', '1') or 1)
    pool = build_pool(seed, n)
    leaky = [i for i, t in enumerate(pool) if t['leaky']]
    k = 0
    twins = {'turtle-assign': 'turtle-use', 'math-assign': 'math-use', 'bakery-count': 'bakery-read', 'helper-a': 'helper-b', 'helper-b': 'helper-a'}
    for i in leaky:
        for j in range(n):
            twin = any(a in pool[i]['tags'] and b in pool[j]['tags'] for a, b in twins.items())
            if tier == 'quick' and (i * 7 + j) % 6 != 0 and not twin:
                continue
            yield {'pool_seed': seed, 'pool_size': n, 'history': [j, i, j]}
            k += 1
    # "grading the same pair twice gives identical results": every triple twice in a row, and after another use of the same module
    turtles = [j for j, t in enumerate(pool) if 'turtle-use' in t['tags']]
    for j in range(n):
        if tier == 'thorough' or j % 2 == 0 or j in turtles:
            yield {'pool_seed': seed, 'pool_size': n, 'history': [j, j]}
    for a in turtles:
        for b in turtles:
            if a != b:
                yield {'pool_seed': seed, 'pool_size': n, 'history': [a, b, a]}


STRATEGIES = {'histories': histories}
ENUMS = {'pairs': pairs}


def plan(tier):
    m = 40 if tier == 'quick' else 1500
    return [Task('hyp', 'histories', shards=8, examples=scale(m), isolate=True, timeout=300),
            Task('enum', 'pairs', shards=8, isolate=True, timeout=300)]
