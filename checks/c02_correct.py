"""C02 - a submission is marked correct exactly when no shown negative feedback fired."""
from vlib.driver import Result, Task, V
from vlib import gen_report as G
from vlib import report_model as M
from checks.c01_resolver import resolver_fn, scale

ID = 'C02'
LEVEL = 'exploration'
RULE = ('Hypothesis scenarios as in C01, biased towards set_correct/compliment/give_partial mixed with failing feedback '
        'and muted/suppressed items; oracle: correct == success == to_json()["correct"] == all(bool(e.correct) for e in '
        'model-eligible feedback). Non-trivial: at least one success marker (correct=True) and at least one triggered '
        'feedback with falsy correct in the same scenario. Distinct = SHA-1 of the canonical JSON case.')
ASSUMPTIONS = ['eligibility (triggered, unmuted, unsuppressed, non-compliment) computed by the independent C01 model',
               'a raising resolve() is left to C01']


def plan(tier):
    n = 1500 if tier == 'quick' else 40000
    return [Task('hyp', 'scenarios', shards=16, examples=scale(n))]


STRATEGIES = {'scenarios': lambda tier: G.scenario_strategy(correct_bias=True)}


def check_one(final, elig, tag, viol):
    expected = all(bool(e.correct) for e in elig)
    got = final.correct
    js = final.to_json()
    if not (got is final.success or got == final.success) or js['correct'] != got or js['success'] != got:
        viol.append(V('C02|%s|inconsistent-flags' % tag, 'correct=%r success=%r json=%r/%r'
                      % (got, final.success, js['correct'], js['success'])))
    if bool(got) != expected or not isinstance(got, bool):
        kind = 'false-correct' if got else 'false-incorrect'
        viol.append(V('C02|%s|%s' % (tag, kind),
                      'resolved correct=%r but eligible feedback declare %r' % (got, [(e.label, e.category, e.correct) for e in elig])))
    if got:
        for e in elig:
            if (e.category or '').lower() in M.NEGATIVE_CATEGORIES and not e.correct:
                viol.append(V('C02|%s|correct-despite-negative' % tag,
                              'correct although visible %s feedback %r fired' % (e.category, e.label)))
                break


def judge(case):
    from pedal.core.report import MAIN_REPORT
    viol, classes = [], []
    raised, sups = G.replay_scenario(case)
    obs = M.observe(MAIN_REPORT)
    elig, amb = M.eligible(obs, sups)
    if amb:
        MAIN_REPORT.full_clear()
        return Result([], False, ['ambiguous-none-category'], ambiguous=1)
    rname = case['resolver']
    try:
        final = resolver_fn(rname)()
    except Exception:
        MAIN_REPORT.full_clear()
        return Result([], False, ['resolve-raised(left to C01)'], ambiguous=1)
    triggered = [o for o in obs if o.triggered]
    markers = [o for o in triggered if o.correct is True]
    failing = [o for o in triggered if not o.correct]
    nontrivial = bool(markers) and bool(failing)
    classes.append('resolver=' + rname)
    if markers and failing:
        m_el = any(o in elig for o in markers)
        f_el = any(o in elig for o in failing)
        classes.append('marker-%s/failing-%s' % ('eligible' if m_el else 'hidden', 'eligible' if f_el else 'hidden'))
    if rname in ('simple', 'full'):
        check_one(final, elig, rname, viol)
    else:
        groups = {}
        for o in triggered:
            groups.setdefault(o.parent, []).append(o)
        for g, members in groups.items():
            if g in final:
                check_one(final[g], [e for e in elig if any(e is m for m in members)], 'sectional', viol)
    MAIN_REPORT.full_clear()
    return Result(viol, nontrivial, classes)
