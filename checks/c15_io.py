"""C15 - captured output and mocked input exactly record what student code did, in order."""
from hypothesis import strategies as st

from vlib.driver import Result, Task, V
from vlib.stateful import judge_ops
from checks.c01_resolver import scale

ID = 'C15'
LEVEL = 'exploration'
RULE = ('Hypothesis rule-based state machine on one sandbox (<= 15 steps): run(program) / call(function, ...) / evaluate(expr) '
        'on I/O scripts generated from an op list [print(args, sep, end) | sys.stdout.write(text) | input(prompt) | stderr write '
        '| raise | loop(n, ops)] so the text and the inputs each execution consumes are known from the op list without running '
        'Python; clear_output, set_input(str|list|tuple|int|None, clear), queue_input(*strs), clear_input, run(inputs=[...]). '
        'Model: raw string, line list, FIFO queue; invariant after every step on get_raw_output / get_output / get_input / last '
        'context output+inputs / returned input values. Non-trivial: >= 2 executions of which one prints nothing after one that '
        'printed, or more reads than queued inputs, or a queue operation between executions. Distinct = SHA-1 of the op list.')
ASSUMPTIONS = ['how a prompt is echoed (suffix after the prompt text) and the exhausted-queue default are calibrated once per '
               'process on a probe; the statement fixes neither',
               'student writes to stderr are not part of standard output']
MIN_NONTRIVIAL = {'quick': 50, 'thorough': 50}

BASE = '''import sys
def say(*parts, sep=' ', end='\\n'):
    print(*parts, sep=sep, end=end)
    return len(parts)
def raw(text):
    sys.stdout.write(text)
    return 0
def ask(prompt):
    return input(prompt)
reader = input                     # the student keeps their own reference to input ...
def ask_alias(prompt):
    return reader(prompt)
def ask_default(prompt, read=input):   # ... or binds it as a default argument when the function is defined
    return read(prompt)
class Mute:
    def __str__(self):
        raise ValueError('this prompt has no text')
def ask_unprintable(kind):
    # showing the prompt fails, as it would at a real console: nothing has been read then
    try:
        return input(Mute() if kind == 'mute' else 10 ** 5000)
    except ValueError:
        return 'no prompt, no answer'
def ask_many(n):
    got = []
    for _ in range(n):
        got.append(input('q>'))
    return got
def quiet(x):
    return x
def fail(text):
    print(text)
    raise ValueError('student failure')
'''
TEXTS = ['a', 'hello world', '', ' ', 'trailing  ', '  lead', 'two\nlines', 'end\n', '\n', '\n\n', 'tab\there', 'cr\rret', 'naïve ✓', 'x' * 30, '0', 'a \n b  \n']
SEPS = [' ', '', '-', ', ', '\n']
ENDS = ['\n', '', '!', ' ', '\n\n', ' \n']
PROMPTS = ['', 'p> ', 'Name: ', 'line\nprompt ', 0, None, False, 7, 0.0, [], 'ok?']     # input() shows str(prompt) whatever object it is given
INPUT_VALUES = ['5', 'hello', '', ' spaced ', '0', 'x y']

_io_op = st.one_of(
    st.fixed_dictionaries({'k': st.just('print'), 'args': st.lists(st.sampled_from(TEXTS), max_size=3), 'sep': st.sampled_from(SEPS), 'end': st.sampled_from(ENDS)}),
    st.fixed_dictionaries({'k': st.just('print'), 'args': st.lists(st.sampled_from(TEXTS), max_size=2), 'sep': st.just(' '), 'end': st.just('\n')}),
    st.fixed_dictionaries({'k': st.just('write'), 'text': st.sampled_from(TEXTS)}),
    st.fixed_dictionaries({'k': st.just('writelines'), 'texts': st.lists(st.sampled_from(TEXTS), max_size=3), 'gen': st.booleans()}),
    st.fixed_dictionaries({'k': st.just('input'), 'prompt': st.sampled_from(PROMPTS)}),
    st.fixed_dictionaries({'k': st.just('stderr'), 'text': st.sampled_from(TEXTS)}),
    st.fixed_dictionaries({'k': st.just('nothing')}),
)
_script = st.lists(st.one_of(_io_op, _io_op, st.fixed_dictionaries({'k': st.just('loop'), 'n': st.integers(0, 3), 'body': st.lists(_io_op, max_size=2)}),
                             st.fixed_dictionaries({'k': st.just('raise')}), st.fixed_dictionaries({'k': st.just('interrupt')})), max_size=5)

_state = {}
MAX_READS = 7      # Sandbox.MAXIMUM_INPUTS as the harness configures it (100000 by default)


def calibrate():
    if 'suffix' in _state:
        return _state
    from pedal.core.commands import contextualize_report
    from pedal.core.report import MAIN_REPORT
    from pedal.sandbox.commands import get_sandbox
    MAIN_REPORT.full_clear()
    contextualize_report("v = input('Q')\n")
    sb = get_sandbox()
    sb.run()
    out = sb.raw_output
    _state['suffix'] = out[1:] if out.startswith('Q') else '\n'
    _state['default'] = sb.data.get('v', '0')
    MAIN_REPORT.full_clear()
    return _state


def render(script, indent=''):
    lines = []
    for op in script:
        k = op['k']
        if k == 'print':
            lines.append('%sprint(%s)' % (indent, ', '.join([repr(a) for a in op['args']] + ['sep=%r' % op['sep'], 'end=%r' % op['end']])))
        elif k == 'write':
            lines.append('%ssys.stdout.write(%r)' % (indent, op['text']))
        elif k == 'writelines':
            lines.append('%ssys.stdout.writelines(%s)' % (indent, ('(t for t in %r)' if op['gen'] else '%r') % (op['texts'],)))
        elif k == 'input':
            lines.append('%s_got.append(input(%r))' % (indent, op['prompt']))
        elif k == 'stderr':
            lines.append('%ssys.stderr.write(%r)' % (indent, op['text']))
        elif k == 'nothing':
            lines.append('%s_unused = 1' % indent)
        elif k == 'raise':
            lines.append("%sraise ValueError('scripted')" % indent)
        elif k == 'interrupt':
            lines.append("%sraise KeyboardInterrupt" % indent)
        elif k == 'loop':
            lines.append('%sfor _i in range(%d):' % (indent, op['n']))
            lines.append(render(op['body'], indent + '    ') or (indent + '    pass'))
    return '\n'.join(lines)


class Model:
    def __init__(self):
        self.raw = ''
        self.lines = []
        self.queue = []

    def execute(self, script):
        """Returns (text written, inputs consumed, raised)."""
        cal = calibrate()
        text, used = [], []
        self.ended_by = None
        limit = MAX_READS      # the sandbox's guard against runaway input loops counts the reads of ONE execution

        def go(ops):
            for op in ops:
                k = op['k']
                if k == 'print':
                    text.append(op['sep'].join(op['args']) + op['end'])
                elif k == 'write':
                    text.append(op['text'])
                elif k == 'writelines':
                    text.append(''.join(op['texts']))
                elif k == 'input':
                    text.append(str(op['prompt']) + cal['suffix'])
                    used.append(self.queue.pop(0) if self.queue else cal['default'])
                    if len(used) >= limit:
                        self.ended_by = 'too-many-reads'      # that read is shown, taken and recorded, then refused (IOError)
                        return True
                elif k in ('raise', 'interrupt'):
                    self.ended_by = k
                    return True
                elif k == 'loop':
                    for _ in range(op['n']):
                        if go(op['body']):
                            return True
            return False
        raised = go(script)
        t = ''.join(text)
        self.record(t)
        return t, used, raised

    def record(self, t):
        self.raw += t
        if t != '':
            self.lines += [l.rstrip() for l in t.rstrip().split('\n')]

    def set_input(self, value, clear):
        if value is None:
            self.queue = []
        if clear:
            self.queue = []
        if isinstance(value, str):
            self.queue.append(value)
        elif isinstance(value, (int, float, bool)):
            self.queue.append(str(value))
        elif isinstance(value, (list, tuple)):
            self.queue.extend(str(v) for v in value)


class Stepper:
    def __init__(self, tier):
        from pedal.core.commands import contextualize_report
        from pedal.core.report import MAIN_REPORT
        from pedal.sandbox.commands import get_sandbox
        calibrate()
        import io
        import sys
        sys.stdin = io.StringIO('')      # should the real input() ever be reached, it ends at once instead of waiting for a terminal
        from pedal.sandbox import mocked
        mocked.PrintingStringIO._ORIGINAL_STDOUT = self.console = io.StringIO()     # the console of this history
        MAIN_REPORT.full_clear()
        contextualize_report(BASE)
        self.sb = get_sandbox()
        self.sb.MAXIMUM_INPUTS = MAX_READS
        self.sb.run()
        self.model = Model()
        self.executions = []      # (printed something?, queue op since previous execution?)
        self.queue_op_pending = False
        self.flags = set()

    def op_strategy(self):
        run = st.fixed_dictionaries({'op': st.just('run'), 'real_io': st.sampled_from([False, False, False, True]), 'script': _script,
                                     'inputs': st.one_of(st.none(), st.none(), st.lists(st.sampled_from(INPUT_VALUES), max_size=3))})
        call_inputs = st.one_of(st.none(), st.none(), st.just([]), st.just(''), st.sampled_from(INPUT_VALUES), st.lists(st.sampled_from(INPUT_VALUES), max_size=2),
                                st.just(0), st.just(()))
        call = st.one_of(
            st.fixed_dictionaries({'op': st.just('call'), 'f': st.just('say'), 'args': st.lists(st.sampled_from(TEXTS), max_size=3),
                                   'sep': st.sampled_from(SEPS), 'end': st.sampled_from(ENDS)}),
            st.fixed_dictionaries({'op': st.just('call'), 'f': st.just('raw'), 'args': st.lists(st.sampled_from(TEXTS), min_size=1, max_size=1)}),
            st.fixed_dictionaries({'op': st.just('call'), 'f': st.just('ask'), 'args': st.lists(st.sampled_from(PROMPTS), min_size=1, max_size=1),
                                   'inputs': call_inputs}, optional={'via': st.sampled_from(['alias', 'default'])}),
            st.fixed_dictionaries({'op': st.just('call'), 'f': st.just('ask_many'), 'n': st.integers(0, 3), 'inputs': call_inputs}),
            st.fixed_dictionaries({'op': st.just('call'), 'f': st.just('quiet'), 'args': st.just(['v'])}),
            st.fixed_dictionaries({'op': st.just('call'), 'f': st.just('ask_unprintable'), 'args': st.sampled_from([['mute'], ['huge']])}),
            st.fixed_dictionaries({'op': st.just('call'), 'f': st.just('fail'), 'args': st.lists(st.sampled_from(TEXTS), min_size=1, max_size=1)}),
        )
        ev = st.fixed_dictionaries({'op': st.just('evaluate'), 'which': st.sampled_from(['quiet', 'say', 'ask', 'raw']),
                                    'text': st.sampled_from(TEXTS[:8])})
        queue = st.one_of(
            st.fixed_dictionaries({'op': st.just('set_input'), 'value': st.one_of(st.none(), st.sampled_from(INPUT_VALUES), st.integers(0, 9), st.booleans(),
                                                                                 st.lists(st.sampled_from(INPUT_VALUES), max_size=3),
                                                                                 st.lists(st.one_of(st.sampled_from(INPUT_VALUES), st.integers(0, 5)), max_size=3)),
                                   'clear': st.booleans(), 'as_tuple': st.booleans()}),
            st.fixed_dictionaries({'op': st.just('queue_input'), 'values': st.lists(st.sampled_from(INPUT_VALUES), max_size=3)}),
            st.just({'op': 'clear_input'}), st.just({'op': 'set_input_live'}),
            st.fixed_dictionaries({'op': st.just('real_io_then_set'), 'values': st.lists(st.sampled_from(INPUT_VALUES), max_size=3)}))
        # a second, unrelated sandbox (e.g. for a reference solution) used next to the student's one: must not show in the student's record
        other = st.fixed_dictionaries({'op': st.just('other_sandbox'), 'action': st.sampled_from(['new', 'run', 'run', 'clear_output', 'set_input']),
                                       'text': st.sampled_from(TEXTS[:8])})
        return st.one_of(run, run, call, call, ev, queue, st.just({'op': 'clear_output'}), other)

    def after_execution(self, t, used, viol, what, returned=None, expect_return=None):
        sb = self.sb
        ctx = sb._context[-1] if sb._context else None
        if ctx is None:
            viol.append(V('C15|context-missing', '%s left no execution record' % what))
        else:
            if ctx.output != t:
                viol.append(V('C15|context-output', '%s: execution record holds %r, the execution wrote %r' % (what, ctx.output, t)))
            if list(ctx.inputs) != used:
                viol.append(V('C15|context-inputs', '%s: execution record lists inputs %r, input() returned %r' % (what, list(ctx.inputs), used)))
        printed = t != ''
        if self.executions and not printed and any(p for p, _ in self.executions):
            self.flags.add('silent-after-printing')
        if len(used) and used[-1] == calibrate()['default'] and 'exhausted' in self.flags_pending:
            self.flags.add('more-reads-than-inputs')
        if self.queue_op_pending and self.executions:
            self.flags.add('queue-op-between-executions')
        self.executions.append((printed, self.queue_op_pending))
        self.queue_op_pending = False

    def invariant(self, viol, what):
        sb = self.sb
        from pedal.sandbox import commands as C
        if C.get_raw_output() != self.model.raw:
            viol.append(V('C15|raw-output', 'after %s: raw output %r, expected %r' % (what, C.get_raw_output()[-120:], self.model.raw[-120:])))
        if list(C.get_output()) != self.model.lines:
            got = list(C.get_output())
            kind = 'phantom-line' if len(got) > len(self.model.lines) else ('missing-line' if len(got) < len(self.model.lines) else 'content')
            viol.append(V('C15|line-view|%s' % kind, 'after %s: line view %r, expected %r' % (what, got[-8:], self.model.lines[-8:])))
        q = C.get_input()
        if not callable(q) and list(q) != self.model.queue:
            viol.append(V('C15|input-queue', 'after %s: queued inputs %r, expected %r' % (what, list(q), self.model.queue)))

    def apply(self, op):
        from pedal.sandbox import commands as C
        from pedal.sandbox.result import is_sandbox_result
        viol = []
        kind = op['op']
        sb = self.sb
        self.flags_pending = set()
        what = kind
        try:
            if kind == 'run':
                code = 'import sys\n_got = []\n' + render(op['script']) + '\n'
                if op['inputs'] is not None or op.get('real_io'):
                    self.model.set_input(list(op['inputs'] or []), True)
                    self.queue_op_pending = True
                n_inputs = len(self.model.queue)
                t, used, raised = self.model.execute(op['script'])
                if op.get('real_io') and self.model.ended_by != 'interrupt':
                    self.model.set_input(None, True)      # run(real_io=True) ends with clear_input() (not reached when a KeyboardInterrupt goes to the grader)
                if len(used) > n_inputs:
                    self.flags_pending.add('exhausted')
                interrupted = any(o['k'] == 'interrupt' for o in op['script']) or any(o['k'] == 'interrupt' for l in op['script'] if l['k'] == 'loop' for o in l['body'])
                try:
                    if op.get('real_io'):
                        # print is let through to the console as well (the harness's sink); the inputs still come from the queue
                        # (never from the real stdin: an empty queue is given when the op has none)
                        self.flags.add('real-io-run')
                        sb.run(code, filename='answer.py', inputs=list(op['inputs'] or []), real_io=True)
                    elif op['inputs'] is not None:
                        sb.run(code, filename='answer.py', inputs=list(op['inputs']))
                    else:
                        sb.run(code, filename='answer.py')
                except KeyboardInterrupt:
                    # not the sandbox's to report: it reaches the grader; what was written before it is recorded all the same
                    if not interrupted:
                        raise
                    raised = False
                    self.flags.add('interrupted-execution')
                what = 'run(%d ops)' % len(op['script'])
                self.after_execution(t, used, viol, what)
                got = sb.data.get('_got')
                if not raised and got != used:
                    viol.append(V('C15|input-values', '%s: input() returned %r to the student, expected FIFO %r' % (what, got, used)))
                if raised != (sb.exception is not None):
                    viol.append(V('C15|harness-script-outcome', 'script raised=%r but sandbox.exception=%r' % (raised, sb.exception)))
            elif kind == 'call':
                f = op['f']
                extra = {}
                if op.get('inputs') is not None:
                    given = op['inputs']
                    given = tuple(given) if isinstance(given, list) and op.get('as_tuple') else given
                    extra['inputs'] = given
                    self.model.set_input(given, True)     # call(inputs=X) is documented to behave like set_input(X)
                    self.queue_op_pending = True
                n_inputs = len(self.model.queue)
                if f == 'say':
                    script = [{'k': 'print', 'args': op['args'], 'sep': op['sep'], 'end': op['end']}]
                    t, used, _ = self.model.execute(script)
                    r = sb.call('say', *op['args'], sep=op['sep'], end=op['end'])
                    expect = len(op['args'])
                elif f == 'raw':
                    t, used, _ = self.model.execute([{'k': 'write', 'text': op['args'][0]}])
                    r = sb.call('raw', op['args'][0])
                    expect = 0
                elif f == 'ask':
                    t, used, _ = self.model.execute([{'k': 'input', 'prompt': op['args'][0]}])
                    via = {'alias': 'ask_alias', 'default': 'ask_default'}.get(op.get('via'), 'ask')
                    if via != 'ask':
                        self.flags.add('input-through-kept-reference')
                    r = sb.call(via, op['args'][0], **extra)
                    expect = used[0]
                elif f == 'ask_many':
                    t, used, _ = self.model.execute([{'k': 'input', 'prompt': 'q>'}] * op['n'])
                    r = sb.call('ask_many', op['n'], **extra)
                    expect = list(used)
                elif f == 'quiet':
                    t, used, _ = self.model.execute([])
                    r = sb.call('quiet', 'v')
                    expect = 'v'
                elif f == 'ask_unprintable':
                    t, used, _ = self.model.execute([])       # no prompt appears and no input is consumed
                    r = sb.call('ask_unprintable', op['args'][0])
                    expect = 'no prompt, no answer'
                    self.flags.add('prompt-that-cannot-be-shown')
                else:
                    t, used, _ = self.model.execute([{'k': 'print', 'args': [op['args'][0]], 'sep': ' ', 'end': '\n'}])
                    r = sb.call('fail', op['args'][0])
                    expect = None
                if len(used) > n_inputs:
                    self.flags_pending.add('exhausted')
                what = 'call(%s)' % f
                self.after_execution(t, used, viol, what)
                if is_sandbox_result(r):
                    try:
                        linked = sb.get_context(r._actual_context_id)[-1]
                    except Exception as e:
                        linked = None
                        viol.append(V('C15|result-record|raises', '%s: looking up the execution record of the result raised %r' % (what, e)))
                    if linked is not None and linked is not sb._context[-1]:
                        viol.append(V('C15|result-record|wrong-execution', '%s: the result is linked to the record of %r, not to its own execution' % (what, linked.code[:40])))
                if expect is not None:
                    val = r._actual_value if is_sandbox_result(r) else r
                    if val != expect:
                        viol.append(V('C15|call-return', '%s returned %r, expected %r' % (what, val, expect)))
            elif kind == 'evaluate':
                w, text = op['which'], op['text']
                n_inputs = len(self.model.queue)
                if w == 'quiet':
                    t, used, _ = self.model.execute([])
                    r = sb.evaluate('quiet(%r)' % text)
                elif w == 'say':
                    t, used, _ = self.model.execute([{'k': 'print', 'args': [text], 'sep': ' ', 'end': ''}])
                    r = sb.evaluate('say(%r, end="")' % text)
                elif w == 'raw':
                    t, used, _ = self.model.execute([{'k': 'write', 'text': text}])
                    r = sb.evaluate('raw(%r)' % text)
                else:
                    t, used, _ = self.model.execute([{'k': 'input', 'prompt': text}])
                    r = sb.evaluate('ask(%r)' % text)
                    val = r._actual_value if is_sandbox_result(r) else r
                    if val != used[0]:
                        viol.append(V('C15|input-values', 'evaluate(ask) returned %r, expected %r' % (val, used[0])))
                if len(used) > n_inputs:
                    self.flags_pending.add('exhausted')
                what = 'evaluate(%s)' % w
                self.after_execution(t, used, viol, what)
            elif kind == 'clear_output':
                C.clear_output()
                self.model.raw, self.model.lines = '', []
            elif kind == 'other_sandbox':
                from pedal.sandbox import Sandbox
                self.flags.add('second-sandbox')
                if op['action'] == 'new' or getattr(self, 'other', None) is None:
                    self.other = Sandbox(report=sb.report)
                if op['action'] == 'run':
                    self.other.run('print(%r)\nreply = input(%r)\nprint(reply)\n' % (op['text'], op['text']), filename='reference.py', inputs=['from the other sandbox'])
                elif op['action'] == 'clear_output':
                    self.other.clear_output()
                elif op['action'] == 'set_input':
                    self.other.set_input([op['text'], op['text']])
            elif kind == 'set_input':
                value = op['value']
                if isinstance(value, list) and op['as_tuple']:
                    value = tuple(value)
                C.set_input(value, clear=op['clear'])
                self.model.set_input(value, op['clear'])
                self.queue_op_pending = True
            elif kind == 'queue_input':
                C.queue_input(*op['values'])
                self.model.set_input(tuple(op['values']), False)
                self.queue_op_pending = True
            elif kind == 'set_input_live':
                # the queue as get_input() hands it out, given back unchanged
                C.set_input(C.get_input())
                self.flags.add('live-queue-handed-back')
                self.queue_op_pending = True
            elif kind == 'real_io_then_set':
                # the instructor lets one part of the grading talk to the console, then goes back to scripted inputs
                C.allow_real_io()
                C.set_input(list(op['values']))
                sb.clear_mocked_function('print')
                self.model.set_input(list(op['values']), True)
                self.flags.add('scripted-inputs-after-real-io')
                self.queue_op_pending = True
            elif kind == 'clear_input':
                C.clear_input()
                self.model.set_input(None, True)
                self.queue_op_pending = True
        except Exception as e:
            import traceback
            tb = traceback.extract_tb(e.__traceback__)[-1]
            viol.append(V('C15|op-raises|%s|%s' % (kind, type(e).__name__), '%s raised %s: %s (%s:%s)' % (kind, type(e).__name__, e, tb.filename, tb.lineno)))
        self.invariant(viol, what)
        if len(sb._context) > 400:
            pass
        return viol

    def finish(self, viol):
        from pedal.core.report import MAIN_REPORT
        MAIN_REPORT.full_clear()
        nontrivial = bool(self.flags) and len(self.executions) >= 2
        return Result(viol, nontrivial, sorted(self.flags) + ['executions=%d' % min(len(self.executions), 6)])


MACHINES = {'io': Stepper}


def plan(tier):
    n = 150 if tier == 'quick' else 5000
    return [Task('machine', 'io', shards=16, examples=scale(n), steps=15)]


def judge(case):
    return judge_ops(Stepper, 'quick', case['ops'])
