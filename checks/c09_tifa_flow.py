"""C09 - TIFA's initialization / unused-variable diagnoses match the execution paths."""
import ast
import builtins
import contextlib
import io
import itertools
import json
import re
import traceback

from hypothesis import strategies as st

from vlib.driver import Result, Task, V
from checks.c01_resolver import scale

ID = 'C09'
LEVEL = 'exploration'
RULE = ('G-FLOW programs over variables x, y, z: "v = 0", "v = w", "v = v + w", "print(v)", "print(v, w)" and if/elif/else on the '
        'opaque test input() nested to depth 3. (1) ALL programs up to a size bound are enumerated (quick: <= 4 statements, depth '
        '<= 2, two variable names; thorough: <= 5 statements / depth <= 3) and Hypothesis adds larger ones (<= 14 statements, three '
        'names); oracle = brute force over every combination of branch outcomes with a 30-line reference walker: a read assigned '
        'on all / none / some of the reaching paths must give no issue / Initialization Problem (or the out-of-scope read) / '
        'Possible Initialization Problem; unused-variable rule likewise. (2) programs with for/while loops over input() and '
        'zero-argument functions are really executed under plain exec for every input vector; each NameError/UnboundLocalError '
        'must be reported by TIFA at that line and name. Non-trivial: some read is assigned on only some reaching paths or the '
        'variable is assigned in a nested branch; part 2: an execution that raised. Distinct = SHA-1 of the JSON program.')
ASSUMPTIONS = ['a read in "else" of a name assigned only in "if" may be reported as read_out_of_scope instead of Initialization '
               'Problem (the statement allows either)',
               'variables that also have an uninitialised read are not judged for the unused rule',
               'part 2 loop tests take 0, 1 or 2 iterations per evaluation (inputs "", "a", "ab")']
EXHAUSTIVE = {'quick': False, 'thorough': False}
EXHAUSTIVE_NOTE = ('the branch-only program space up to the stated size bound is enumerated completely (task "small"); larger '
                   'programs and the loop/function extension are sampled')
INIT_LABELS = ('initialization_problem', 'possible_initialization_problem', 'read_out_of_scope')
VARS2 = ['x', 'y']
VARS3 = ['x', 'y', 'z']


# ---------------------------------------------------------------------------------------------------------
# program representation: nested lists (JSON): ['a0', v] | ['cp', v, w] | ['add', v, w] | ['p', v] | ['p2', v, w]
#   | ['if', [block, block, ...], else_block or None]          (first block = if, further = elif)
#   | ['for', block] | ['while', block] | ['def', name, block] | ['call', name]                     (part 2 only)

# surface forms of the two read statements: the same names are read, every one of them on every execution, whatever they hold
P_STYLES = ['print(%s)', 'print(f"value is {%s}")', 'print(str(%s) + "!")', 'print([%s])', 'print("%%s" %% (%s,))', 'print({1: %s})', 'print(repr(%s), end="")', 'print(f"{1:{%s}}")']
P2_STYLES = ['print(%s, %s)', 'print(f"{%s} and {%s}")', 'print((%s, %s))', 'print(%s == %s)', 'print(f"first {%s!r:>4}", f"{%s}")', 'print(%s, end=str(%s))',
             'print(str(%s), sep=repr(%s))', 'print(f"{%s:{%s}}")']
_surface = {'style': 0}


def render(block, indent=0, lines=None):
    """Render to source; every statement node gets its 1-based line appended in place: returns list of text lines."""
    if lines is None:
        lines = []
    pad = '    ' * indent
    for s in block:
        k = s[0]
        if k == 'a0':
            lines.append(pad + '%s = 0' % s[1])
        elif k == 'cp':
            lines.append(pad + '%s = %s' % (s[1], s[2]))
        elif k == 'add':
            lines.append(pad + '%s = %s + %s' % (s[1], s[1], s[2]))
        elif k == 'p':
            lines.append(pad + P_STYLES[_surface['style'] % len(P_STYLES)] % s[1])
        elif k == 'p2':
            lines.append(pad + P2_STYLES[_surface['style'] % len(P2_STYLES)] % (s[1], s[2]))
        elif k == 'if':
            for i, b in enumerate(s[1]):
                lines.append(pad + ('if input():' if i == 0 else 'elif input():'))
                render(b, indent + 1, lines) if b else lines.append(pad + '    pass')
            if s[2] is not None:
                lines.append(pad + 'else:')
                render(s[2], indent + 1, lines) if s[2] else lines.append(pad + '    pass')
        elif k in ('le', 'l1', 'lapp', 'lext'):
            lines.append(pad + {'le': '%s = []', 'l1': '%s = [1, 2]', 'lapp': '%s.append(1)', 'lext': '%s.extend([3])'}[k] % s[1])
        elif k == 'forv':
            lines.append(pad + 'for _ in %s:' % s[1])
            render(s[2], indent + 1, lines) if s[2] else lines.append(pad + '    pass')
        elif k in ('for', 'while'):
            lines.append(pad + ('for _ in input():' if k == 'for' else 'while input():'))
            render(s[1], indent + 1, lines) if s[1] else lines.append(pad + '    pass')
            if len(s) > 2 and s[2] is not None:       # loop ... else: runs when the loop ends without break (always, here)
                lines.append(pad + 'else:')
                render(s[2], indent + 1, lines) if s[2] else lines.append(pad + '    pass')
        elif k == 'def':
            lines.append(pad + 'def %s():' % s[1])
            render(s[2], indent + 1, lines) if s[2] else lines.append(pad + '    pass')
        elif k == 'call':
            lines.append(pad + '%s()' % s[1])
    return lines


def walk(block, line, paths):
    """Reference walker for branch-only programs.  paths: list of (assigned frozenset, events tuple).
    events: (line, name, was_assigned) for reads, ('set', name) markers for the unused rule.  Returns (paths, next line)."""
    for s in block:
        k = s[0]
        if k in ('a0', 'cp', 'add', 'p', 'p2'):
            reads = {'a0': [], 'cp': [s[2]] if k == 'cp' else [], 'add': [s[1], s[2]] if k == 'add' else [], 'p': [s[1]] if k == 'p' else [],
                     'p2': [s[1], s[2]] if k == 'p2' else []}[k]
            write = s[1] if k in ('a0', 'cp', 'add') else None
            new = []
            for assigned, events in paths:
                ev = events + tuple((line, r, r in assigned) for r in reads)
                if write is not None:
                    ev = ev + (('set', write),)
                    assigned = assigned | {write}
                new.append((assigned, ev))
            paths = new
            line += 1
        elif k == 'if':
            out = []
            remaining = paths          # paths on which all earlier tests were false
            for b in s[1]:
                line += 1              # the if/elif header line
                taken, line = walk(b, line, list(remaining)) if b else (list(remaining), line + 1)
                out += taken
            if s[2] is not None:
                line += 1
                taken, line = walk(s[2], line, list(remaining)) if s[2] else (list(remaining), line + 1)
                out += taken
            else:
                out += list(remaining)
            paths = out
    return paths, line


def classify(program):
    """Brute force over all branch outcomes -> ({(line,name): 'all'|'none'|'some'}, unused verdicts {name: True|False|None})."""
    paths, _ = walk(program, 1, [(frozenset(), ())])
    reach = {}
    for assigned, events in paths:
        for ev in events:
            if ev[0] == 'set':
                continue
            key = (ev[0], ev[1])
            r = reach.setdefault(key, [0, 0])
            r[0] += 1
            r[1] += 1 if ev[2] else 0
    # each path is one outcome vector; a read event on a path appears once per occurrence; normalise by occurrences per path
    verdict = {}
    for key, (n, a) in reach.items():
        verdict[key] = 'all' if a == n else ('none' if a == 0 else 'some')
    names = {e[1] for _, evs in paths for e in evs}
    unused = {}
    for name in names:
        assigned_somewhere = False
        read_after_on_every = True
        read_after_on_some = False
        uninit_read = False
        for assigned, events in paths:
            seen_set = False
            pending = False        # an assignment not yet followed by a read
            for ev in events:
                if ev[0] == 'set':
                    if ev[1] == name:
                        seen_set = True
                        pending = True
                elif ev[1] == name:
                    if not ev[2]:
                        uninit_read = True
                    if seen_set:
                        read_after_on_some = True
                        pending = False
            if seen_set:
                assigned_somewhere = True
            if not seen_set or pending:
                read_after_on_every = False
        if not assigned_somewhere:
            continue
        if uninit_read:
            unused[name] = None
        elif not read_after_on_some:
            unused[name] = True
        elif read_after_on_every:
            unused[name] = False
        else:
            unused[name] = None
    return verdict, unused


def tifa_issues(code):
    from pedal.core.commands import contextualize_report
    from pedal.core.report import MAIN_REPORT
    from pedal.tifa.commands import tifa_analysis
    MAIN_REPORT.full_clear()
    contextualize_report(code)
    result = tifa_analysis()
    out = {}
    for label, fbs in result.issues.items():
        for f in fbs:
            out.setdefault(label, set()).add((str(f.fields.get('name')), f.location.line if f.location is not None else None))
    MAIN_REPORT.full_clear()
    return result, out


def has_nested_assignment(block, depth=0):
    for s in block:
        if s[0] in ('a0', 'cp', 'add') and depth >= 1:
            return True
        if s[0] == 'if':
            for b in s[1] + ([s[2]] if s[2] is not None else []):
                if has_nested_assignment(b, depth + 1):
                    return True
    return False


def judge_branch(case):
    program = case['program']
    code = '\n'.join(render(program)) + '\n'
    verdict, unused = classify(program)
    try:
        result, issues = tifa_issues(code)
    except Exception as e:
        return Result([V('C09|tifa-raises', 'tifa_analysis raised %r on\n%s' % (e, code))], True, ['branch'])
    if not result.success:
        return Result([], False, ['tifa-internal-failure(left to C18)'], ambiguous=1)
    viol = []
    reported = {}
    for label in INIT_LABELS:
        for name, line in issues.get(label, ()):
            reported.setdefault((line, name), set()).add(label)
    some = False
    for key, v in verdict.items():
        got = reported.get(key, set())
        if v == 'all' and got:
            viol.append(V('C09|branch|false-alarm|%s' % sorted(got)[0], 'line %d: %s is assigned on every path reaching it but TIFA reports %s\n%s'
                          % (key[0], key[1], sorted(got), code)))
        elif v == 'none':
            if not (got & {'initialization_problem', 'read_out_of_scope'}):
                viol.append(V('C09|branch|missed-or-weakened|none-assigned', 'line %d: %s is assigned on no path reaching it; TIFA reports %s\n%s'
                              % (key[0], key[1], sorted(got) or 'nothing', code)))
        elif v == 'some':
            some = True
            if 'possible_initialization_problem' not in got:
                viol.append(V('C09|branch|some-paths|%s' % ('missed' if not got else 'wrong-label'),
                              'line %d: %s is assigned on some but not all paths reaching it; TIFA reports %s\n%s'
                              % (key[0], key[1], sorted(got) or 'nothing', code)))
    for key in reported:
        if key not in verdict:
            viol.append(V('C09|branch|phantom-read', 'TIFA reports %s for %s at line %s where the program has no such read\n%s'
                          % (sorted(reported[key]), key[1], key[0], code)))
    unused_reported = {n for n, _ in issues.get('unused_variable', ())}
    amb = 0
    for name, v in unused.items():
        if v is None:
            amb = 1
        elif v and name not in unused_reported:
            viol.append(V('C09|branch|unused-missed', '%s is never read after any assignment on any path but is not reported unused\n%s' % (name, code)))
        elif v is False and name in unused_reported:
            viol.append(V('C09|branch|unused-false-alarm', '%s is read after its last assignment on every path but is reported unused\n%s' % (name, code)))
    nontrivial = some or has_nested_assignment(program)
    return Result(viol[:3], nontrivial, ['branch', 'some-path-read' if some else 'no-some-path-read'], amb)


# ---------------------------------------------------------------------------------------------------------
# part 2: loops and function calls, ground truth by real execution

def count_inputs(block):
    n = 0
    for s in block:
        if s[0] == 'if':
            n += len(s[1])
            for b in s[1] + ([s[2]] if s[2] is not None else []):
                n += count_inputs(b)
        elif s[0] == 'forv':
            n += 2 * count_inputs(s[2])
        elif s[0] in ('for', 'while'):
            n += 2 + 2 * count_inputs(s[1])
            if len(s) > 2 and s[2] is not None:
                n += count_inputs(s[2])
        elif s[0] == 'def':
            n += count_inputs(s[2])
    return n


def judge_loops(case):
    program = case['program']
    code = '\n'.join(render(program)) + '\n'
    try:
        compiled = compile(code, 'answer.py', 'exec')
    except SyntaxError:
        return Result([], False, ['unparsable'], ambiguous=1)
    k = min(count_inputs(program), 5)
    failures = {}
    old_input = builtins.input
    executions = 0
    for vector in itertools.product(['', 'a', 'ab'], repeat=k):
        queue = list(vector)

        def fake(prompt=''):
            return queue.pop(0) if queue else ''
        builtins.input = fake
        try:
            with contextlib.redirect_stdout(io.StringIO()):
                exec(compiled, {'__name__': '__main__'})
        except (NameError, UnboundLocalError) as e:
            line = [fr.lineno for fr in traceback.extract_tb(e.__traceback__) if fr.filename == 'answer.py'][-1]
            name = getattr(e, 'name', None) or str(e).split("'")[1]
            failures.setdefault((line, name), (vector, type(e).__name__))
        except RecursionError:
            pass
        except Exception:
            pass
        finally:
            builtins.input = old_input
        executions += 1
    try:
        result, issues = tifa_issues(code)
    except Exception as e:
        return Result([V('C09|tifa-raises', 'tifa_analysis raised %r on\n%s' % (e, code))], True, ['loops'])
    if not result.success:
        return Result([], False, ['tifa-internal-failure(left to C18)'], ambiguous=1)
    reported = set()
    for label in INIT_LABELS:
        for name, line in issues.get(label, ()):
            reported.add((line, name))
    viol = []
    for (line, name), (vector, exc_name) in sorted(failures.items()):
        if (line, name) not in reported:
            ctx = sorted(assignment_contexts(program, name))
            causes = []
            if any('for' in c for c in ctx):
                # experiment: with every for-loop turned into a while-loop (same line layout) does TIFA see the read?
                try:
                    _, alt = tifa_issues(re.sub(r'for _ in (input\(\)|[pq]):', 'while input():', code))
                    alt_rep = {(l, n) for lab in INIT_LABELS for n, l in alt.get(lab, ())}
                    if (line, name) in alt_rep:
                        causes.append('for-body-assumed-to-run')
                except Exception:
                    pass
            if not causes and (exc_name == 'UnboundLocalError' or any(c.startswith('def') for c in ctx)):
                # the recorded finding is the missing local-binding rule: the function's own assignments come textually AFTER the
                # read, so TIFA has not met a local of that name yet and resolves the global.  A local that was assigned (on some
                # path) earlier in the same function is tracked by TIFA, and losing it is not that finding.
                if not (exc_name == 'UnboundLocalError' and local_assigned_before(code, name, line)):
                    causes.append('function-scope')
            cell = 'C09|missed-uninitialised-read|%s' % ('+'.join(causes) if causes else 'other|%s|assigned-in=%s' % (exc_name, '+'.join(ctx) or 'nowhere'))
            viol.append(V(cell,
                          'with inputs %r the read of %s on line %d raises %s, TIFA reports none of %s there\n%s'
                          % (list(vector), name, line, exc_name, INIT_LABELS, code)))
    return Result(viol[:2], bool(failures), ['loops', 'executions=%d' % min(executions, 243)])


def local_assigned_before(code, name, line):
    """Does the function that contains `line` assign `name` on an earlier line that lies on a path to `line` (i.e. not in another
    branch of an if statement that also holds the read)?"""
    tree = ast.parse(code)
    for fn in ast.walk(tree):
        if not (isinstance(fn, ast.FunctionDef) and fn.lineno < line <= fn.end_lineno):
            continue
        stores, read_stack = [], [None]

        def visit(stmts, stack):
            for st_ in stmts:
                if st_.lineno <= line <= st_.end_lineno and not isinstance(st_, (ast.If, ast.For, ast.While)):
                    read_stack[0] = stack
                for node in ([st_] if not isinstance(st_, (ast.If, ast.For, ast.While)) else [st_.test if not isinstance(st_, ast.For) else st_.target]):
                    for sub in ast.walk(node):
                        if isinstance(sub, ast.Name) and isinstance(sub.ctx, ast.Store) and sub.id == name and sub.lineno < line:
                            stores.append(stack)
                if isinstance(st_, ast.If):
                    if st_.lineno == line:
                        read_stack[0] = stack
                    visit(st_.body, stack + [(id(st_), 'body')])
                    visit(st_.orelse, stack + [(id(st_), 'orelse')])
                elif isinstance(st_, (ast.For, ast.While)):
                    if st_.lineno == line:
                        read_stack[0] = stack
                    # a loop body may not run at all, and TIFA analyses a loop's else clause as a continuation of its body: an
                    # assignment inside a loop only counts for reads in the same block of the same loop
                    visit(st_.body, stack + [(-id(st_), 'body')])
                    visit(st_.orelse, stack + [(-id(st_), 'orelse')])
        visit(fn.body, [])
        if read_stack[0] is None:
            return False
        here = dict(read_stack[0])
        for stack in stores:
            if all((here.get(block, branch) == branch) if block > 0 else (here.get(block) == branch) for block, branch in stack):
                return True
    return False


def assignment_contexts(block, name, ctx=('top',)):
    """Where (innermost loop / function) the program assigns `name`: root-cause key for missed reads."""
    out = set()
    for s in block:
        if s[0] in ('a0', 'cp', 'add') and s[1] == name:
            out.add('/'.join(c for c in ctx if c != 'top') or 'top')
        elif s[0] == 'if':
            for b in s[1] + ([s[2]] if s[2] is not None else []):
                out |= assignment_contexts(b, name, ctx)
        elif s[0] in ('le', 'l1') and s[1] == name:
            out.add('/'.join(c for c in ctx if c != 'top') or 'top')
        elif s[0] == 'forv':
            out |= assignment_contexts(s[2], name, tuple(c for c in ctx if c in ('def',)) + ('for',))
        elif s[0] in ('for', 'while'):
            out |= assignment_contexts(s[1], name, tuple(c for c in ctx if c in ('def',)) + (s[0],))
            if len(s) > 2 and s[2] is not None:
                out |= assignment_contexts(s[2], name, ctx)
        elif s[0] == 'def':
            out |= assignment_contexts(s[2], name, ('def',))
    return out


def flat_kinds(block):
    for s in block:
        yield s[0]
        if s[0] == 'if':
            for b in s[1] + ([s[2]] if s[2] is not None else []):
                yield from flat_kinds(b)
        elif s[0] == 'forv':
            yield from flat_kinds(s[2])
        elif s[0] in ('for', 'while'):
            yield from flat_kinds(s[1])
            if len(s) > 2 and s[2] is not None:
                yield 'loop-else'
                yield from flat_kinds(s[2])
        elif s[0] == 'def':
            yield from flat_kinds(s[2])


def judge(case):
    _surface['style'] = case.get('style', 0)
    res = judge_loops(case) if case.get('part') == 2 else judge_branch(case)
    if case.get('style'):
        res.classes.append('read-surface=%d' % (case['style'] % len(P_STYLES)))
    return res


# ---------------------------------------------------------------------------------------------------------
# enumeration of all small branch-only programs

def simple_statements(names):
    out = []
    for v in names:
        out.append(['a0', v])
        out.append(['p', v])
        for w in names:
            if w != v:
                out.append(['cp', v, w])
                out.append(['add', v, w])
    for v, w in itertools.combinations(names, 2):
        out.append(['p2', v, w])
    return out


def blocks(size, depth, names, _cache={}):
    """All blocks (lists of statements) of exactly `size` statements (an if counts 1 + its contents)."""
    key = (size, depth, tuple(names))
    if key in _cache:
        return _cache[key]
    res = []
    if size == 0:
        res = [[]]
    else:
        for first_size in range(1, size + 1):
            for first in statements(first_size, depth, names):
                for rest in blocks(size - first_size, depth, names):
                    res.append([first] + rest)
    _cache[key] = res
    return res


def statements(size, depth, names):
    if size == 1:
        return simple_statements(names)
    if depth <= 0:
        return []
    out = []
    inner = size - 1
    # if <A> [else <B>]   and   if <A> elif <B> [else <C>]  with non-empty blocks
    for a in range(1, inner + 1):
        for A in blocks(a, depth - 1, names):
            if a == inner:
                out.append(['if', [A], None])
            for b in range(1, inner - a + 1):
                for B in blocks(b, depth - 1, names):
                    if a + b == inner:
                        out.append(['if', [A], B])
                        out.append(['if', [A, B], None])
                    for c in range(1, inner - a - b + 1):
                        if a + b + c == inner:
                            for C in blocks(c, depth - 1, names):
                                out.append(['if', [A, B], C])
    return out


def _flat(block):
    for s in block:
        yield s
        for part in s[1:]:
            if isinstance(part, list):
                for b in (part if part and isinstance(part[0], list) and part[0] and isinstance(part[0][0], list) else [part]):
                    if b and isinstance(b[0], list):
                        yield from _flat(b)


def small_programs(tier):
    max_size, depth = (4, 2) if tier == 'quick' else (5, 3)
    for size in range(1, max_size + 1):
        for i, prog in enumerate(blocks(size, depth, VARS2)):
            yield {'program': prog}
            if any(st_[0] in ('p', 'p2') for st_ in _flat(prog)):
                yield {'program': prog, 'style': 1 + i % 7}


def caller_programs(tier):
    """All small caller/callee programs: a global x, a function f that reads or assigns x, a function g that assigns / reads x and calls f in
    every arrangement of two or three items (in and outside branches).  What the callee does to ITS x must not change what the
    caller's reads of x are told."""
    f_bodies = [[['p', 'x']], [['a0', 'x'], ['p', 'x']], [['cp', 'y', 'x']]]
    items = [['a0', 'x'], ['if', [[['a0', 'x']]], None], ['call', 'f'], ['p', 'x'], ['if', [[['call', 'f'], ['p', 'x']]], None], ['if', [[['p', 'x']]], None],
             ['if', [[['call', 'f']]], [['a0', 'x']]]]
    for top in ([['a0', 'x']], []):
        for fb in f_bodies:
            for n in (2, 3):
                for seq in itertools.product(range(len(items)), repeat=n):
                    if not any(items[i][0] == 'call' or (items[i][0] == 'if' and 'call' in repr(items[i])) for i in seq):
                        continue
                    prog = [list(t) for t in top] + [['def', 'f', fb], ['def', 'g', [items[i] for i in seq]], ['call', 'g']]
                    yield {'part': 2, 'program': json.loads(json.dumps(prog))}


ENUMS = {'small': small_programs, 'callers': caller_programs}

_var = st.sampled_from(VARS3)


def _simple():
    return st.one_of(st.tuples(st.just('a0'), _var), st.tuples(st.just('a0'), _var), st.tuples(st.just('cp'), _var, _var), st.tuples(st.just('add'), _var, _var),
                     st.tuples(st.just('p'), _var), st.tuples(st.just('p'), _var), st.tuples(st.just('p2'), _var, _var)).map(list)


def _block(depth, loops=False, calls=None):
    if depth <= 0:
        return st.lists(st.one_of(_simple(), _simple(), st.just(['call', calls])) if calls else _simple(), min_size=1, max_size=3)
    inner = _block(depth - 1, loops, calls)
    ifs = st.tuples(st.just('if'), st.lists(inner, min_size=1, max_size=3), st.one_of(st.none(), inner)).map(list)
    options = [_simple(), _simple(), ifs]
    if loops:
        _lv = st.sampled_from(['p', 'q'])
        options += [st.tuples(st.sampled_from(['le', 'l1', 'l1', 'lapp', 'lext']), _lv).map(list), st.tuples(st.just('forv'), _lv, inner).map(list),
                    st.tuples(st.just('for'), inner).map(list), st.tuples(st.just('while'), inner).map(list),
                    st.tuples(st.sampled_from(['for', 'while']), inner, inner).map(list)]
    return st.lists(st.one_of(options), min_size=1, max_size=4)


def large_programs(tier):
    # initialise-first bias keeps the "ambiguous for the unused rule" class small
    init = st.lists(st.tuples(st.just('a0'), _var).map(list), max_size=2)
    return st.tuples(init, _block(3), st.integers(0, 7)).map(lambda t: dict({'program': t[0] + t[1]}, **({'style': t[2]} if t[2] else {})))


def loop_programs(tier):
    plain = st.lists(st.tuples(st.just('def'), st.sampled_from(['f', 'g']), _block(1, loops=True)).map(list), max_size=2, unique_by=lambda d: d[1])
    # ... or f, and a g whose body (also inside its branches) calls f: what a callee reads must not leak into the caller's own names
    chained = st.tuples(st.tuples(st.just('def'), st.just('f'), _block(1, loops=True)).map(list),
                        st.tuples(st.just('def'), st.just('g'), _block(1, loops=True, calls='f')).map(list)).map(list)
    funcs = st.one_of(plain, chained)

    def assemble(t):
        defs, body, calls = t
        names = [d[1] for d in defs]
        prog = list(defs) + list(body)
        for pos, which in calls:
            if names:
                prog.insert(len(defs) + pos % (len(body) + 1), ['call', names[which % len(names)]])
        return {'part': 2, 'program': prog}
    return st.tuples(st.tuples(funcs, _block(2, loops=True), st.lists(st.tuples(st.integers(0, 6), st.integers(0, 1)), max_size=3)).map(assemble), st.integers(0, 7)).map(
        lambda t: dict(t[0], **({'style': t[1]} if t[1] else {})))


def list_loop_programs(tier):
    """A list that is built up in several ways (literal, append, extend, emptied again on a branch), then a loop over it whose body
    reads and assigns the scalar variables: whether the body runs depends on the list's real content, not on how it was first written."""
    lv = st.sampled_from(['p', 'q'])
    listop = st.tuples(st.sampled_from(['le', 'le', 'l1', 'lapp', 'lext', 'lext']), lv).map(list)
    branch = st.tuples(st.just('if'), st.lists(st.lists(listop, min_size=1, max_size=2), min_size=1, max_size=2), st.one_of(st.none(), st.lists(listop, max_size=1))).map(list)
    prefix = st.lists(st.one_of(listop, listop, branch, _simple()), min_size=1, max_size=4)
    loop = st.tuples(st.just('forv'), lv, _block(0)).map(list)
    tail = st.lists(st.one_of(_simple(), loop, listop), max_size=3)
    outer = st.sampled_from(['none', 'while'])

    def assemble(t):
        pre, lp, post, wrap = t
        prog = list(pre) + [lp] + list(post)
        if wrap == 'while':
            prog = [['le', 'p'], ['while', prog]]
        return {'part': 2, 'program': prog}
    return st.tuples(st.tuples(prefix, loop, tail, outer).map(assemble), st.integers(0, 7)).map(lambda t: dict(t[0], **({'style': t[1]} if t[1] else {})))


STRATEGIES = {'large': large_programs, 'loops': loop_programs, 'listloops': list_loop_programs}


def plan(tier):
    k = 1 if tier == 'quick' else 30
    return [Task('enum', 'small', shards=9), Task('enum', 'callers', shards=1), Task('hyp', 'large', shards=3, examples=scale(400 * k)),
            Task('hyp', 'loops', shards=2, examples=scale(300 * k)), Task('hyp', 'listloops', shards=2, examples=scale(400 * k))]
