"""C10 - every CAIT match is a genuine embedding of the pattern in the student's code."""
import ast
import re

from hypothesis import strategies as st

from vlib.driver import Result, Task, V
from vlib import gen_code as G
from vlib import gen_cs1 as CS1
from vlib import cait_derive as D
from checks.c01_resolver import scale

ID = 'C10'
LEVEL = 'exploration'
RULE = ('(program, pattern) pairs: program from G-CS1 / G-SYNTAX / corpus; pattern = (a) a generalisation derived from the '
        'same program (matches are plentiful), (b) that pattern after one mutation (identifier renamed, literal or operator '
        'changed, call arguments swapped, a _var_ duplicated onto a different identifier, a statement added, a name added to a '
        'global list), (c) a fragment of a different program, (d) a pattern carrying a fresh identifier/literal occurring '
        'nowhere in the program. Oracle: an independent witness checker over every returned AstMap (same node class, equal '
        'primitive content by type and value, mapped children are direct children in increasing order - operands of + and * '
        'may swap -, one identifier per _var_, __expr__ bound to the paired subtree, match_root = partner of the pattern '
        'root); (d) must return no match. Non-trivial: the pattern has >= 3 concrete nodes and >= 1 match was returned, or it '
        'is a (b)/(d) near miss. Distinct = SHA-1 of the JSON case.')
ASSUMPTIONS = ['(the constant None is a literal like any other: only *absent* optional fields are unconstrained) ', 'Expr statement wrappers and Module roots are transparent (a one-statement pattern is trimmed to its expression and '
               'may sit inside any statement) and "pass" is a wildcard: pedal documents both in code',
               'a pattern field whose value is None leaves that field unconstrained (pedal: "if ins_value is None: continue")',
               'ctx nodes are ignored; literal equality is by type and value (C08 needs the type part)']
PLACE = re.compile(r'^_.*_$')
VAR = re.compile(r'^_[^_].*_$')
EXP = re.compile(r'^__.*__$')
WILD = re.compile(r'^___$')
PRIMS = (int, float, str, bool, bytes, complex, type(None), type(Ellipsis))

_steps = st.lists(st.tuples(st.sampled_from(['wild', 'wild', 'rename', 'rename', 'drop']), st.integers(0, 40), st.booleans()).map(list), max_size=4)
MUTATIONS = ['rename-id', 'literal', 'literal-type', 'operator', 'swap-args', 'dup-var', 'add-stmt', 'global-extra', 'compare-op', 'compare-op', 'flag', 'flag', 'none']


def cases(tier):
    programs = st.one_of(CS1.cs1_program(max_statements=6, risk=False).map(lambda p: p['code'][len(CS1.PRELUDE):]),
                         G.syntax_program(depth=2, max_statements=5), G.corpus_strategy(stdlib=False), G.syntax_program(depth=1, max_statements=8))
    return st.fixed_dictionaries({'code': programs, 'other': programs,
                                  'derivation': st.fixed_dictionaries({'frag': st.integers(0, 60), 'steps': _steps}),
                                  'kind': st.sampled_from(['a', 'b', 'b', 'b', 'c', 'd']), 'mutation': st.sampled_from(MUTATIONS[:-1]),
                                  'index': st.integers(0, 12)})


# ---- flat programs: repetitive straight-line code and multi-statement placeholder patterns over the same tiny alphabet, so that
# candidates are dropped for placeholder conflicts and later candidates exist - with a brute-force embedding search as a second oracle
_flat_stmt = st.one_of(
    st.tuples(st.sampled_from('abc'), st.sampled_from(['0', '0', '1'])).map(lambda t: '%s = %s' % t),
    st.tuples(st.sampled_from('abc'), st.sampled_from('abc')).map(lambda t: '%s = %s' % t),
    st.tuples(st.sampled_from('abc'), st.sampled_from('abc'), st.sampled_from('abc')).map(lambda t: '%s = %s + %s' % t),
    st.sampled_from('abc').map(lambda v: 'print(%s)' % v),
    st.sampled_from(['setup', 'log']).map(lambda f: '%s()' % f))
_PH = ['_x_', '_y_', '_z_']
_flat_pat = st.one_of(
    st.tuples(st.sampled_from(_PH + ['a']), st.sampled_from(['0', '1', '___', '__e1__', '__e2__'])).map(lambda t: '%s = %s' % t),
    st.sampled_from(['print(__e1__)', 'print(__e2__)', '_x_ = _y_ + __e1__']),
    st.tuples(st.sampled_from(_PH), st.sampled_from(_PH + ['b'])).map(lambda t: '%s = %s' % t),
    st.tuples(st.sampled_from(_PH), st.sampled_from(_PH), st.sampled_from(_PH + ['___'])).map(lambda t: '%s = %s + %s' % t),
    st.sampled_from(_PH + ['c', '___']).map(lambda v: 'print(%s)' % v),
    st.sampled_from(['_f_', '_g_', 'setup']).map(lambda f: '%s()' % f))


def flat_cases(tier):
    return st.fixed_dictionaries({'flat': st.just(True), 'code': st.lists(_flat_stmt, min_size=3, max_size=7).map(lambda l: '\n'.join(l) + '\n'),
                                  'pattern': st.lists(_flat_pat, min_size=2, max_size=4).map('\n'.join)},
                                 optional={'continue': st.sampled_from(['_x_ + _y_', '_x_ + 1', '_y_ + _x_', '_z_ = _x_ + _y_', 'print(_x_)', '_x_ + ___', '_f_()',
                                                                          # the same expression placeholder names as the first pattern may use
                                                                          '_z_ = __e1__', 'print(__e1__)', '__e1__ + _x_', '_x_ + __e1__', '_y_ = __e2__', 'print(__e2__)',
                                                                          '_x_', '_y_'])})        # a bare placeholder as the whole continuation


def flat_continued_cases(tier):
    """The first pattern binds __e1__; the continuation uses the same name inside a commutative operation (either operand) or elsewhere."""
    first = st.sampled_from(['print(__e1__)', '_x_ = __e1__', '_x_ = _y_ + __e1__', '_f_()\nprint(__e1__)', '_x_ = __e1__\nprint(_x_)'])
    cont = st.sampled_from(['__e1__ + _y_', '_y_ + __e1__', '__e1__ + ___', '___ + __e1__', '_z_ = __e1__ + ___', '_z_ = ___ + __e1__', 'print(__e1__)', '_z_ = __e1__'])
    return st.fixed_dictionaries({'flat': st.just(True), 'code': st.lists(_flat_stmt, min_size=3, max_size=7).map(lambda l: '\n'.join(l) + '\n'),
                                  'pattern': first, 'continue': cont})


def _node_embeds(p, s, binding):
    """All extensions of `binding` under which pattern node p matches student node s exactly (no stretching inside a statement)."""
    if isinstance(p, ast.Name) and PLACE.match(p.id):
        if WILD.match(p.id):
            return [binding]
        if EXP.match(p.id):
            # a named expression placeholder stands for any expression; what a second use of the same name requires is not
            # documented, so such patterns are left to the witness check
            if 'expr:' + p.id in binding:
                return None
            return [dict(binding, **{'expr:' + p.id: True})]
        if not isinstance(s, ast.Name):
            return []
        if binding.get(p.id, s.id) != s.id:
            return []
        return [dict(binding, **{p.id: s.id})]
    if type(p) is not type(s):
        return []
    if isinstance(p, ast.Expr):
        return _node_embeds(p.value, s.value, binding)
    if isinstance(p, ast.Constant):
        return [binding] if prim_equal(p.value, s.value) else []
    if isinstance(p, ast.Name):
        return [binding] if p.id == s.id else []
    if isinstance(p, ast.Assign):
        if len(p.targets) != len(s.targets):
            return []
        pairs = list(zip(p.targets, s.targets)) + [(p.value, s.value)]
    elif isinstance(p, ast.BinOp):
        if type(p.op) is not type(s.op):
            return []
        out = _pairs_embed([(p.left, s.left), (p.right, s.right)], binding)
        if out is None:
            return None
        if isinstance(p.op, (ast.Add, ast.Mult)):
            swapped = _pairs_embed([(p.left, s.right), (p.right, s.left)], binding)
            if swapped is None:
                return None
            out += swapped
        return out
    elif isinstance(p, ast.Call):
        if p.keywords or s.keywords:
            return None
        # stretchy: the pattern's arguments pair with a subsequence of the student's arguments
        out = []
        import itertools as _it
        for chosen in _it.combinations(range(len(s.args)), len(p.args)):
            r = _pairs_embed([(p.func, s.func)] + [(p.args[k], s.args[j]) for k, j in enumerate(chosen)], binding)
            if r is None:
                return None
            out += r
        return out
    else:
        return None      # a shape this reference does not model
    return _pairs_embed(pairs, binding)


def _pairs_embed(pairs, binding):
    states = [binding]
    for a, b in pairs:
        nxt = []
        for st_ in states:
            r = _node_embeds(a, b, st_)
            if r is None:
                return None
            nxt += r
        states = nxt
    return states


def flat_embedding_exists(pattern, code):
    """True / False / None (not modelled): is there an increasing choice of program statements that the pattern statements match one by one
    under one consistent binding of the _var_ placeholders?"""
    ps, ss = ast.parse(pattern).body, ast.parse(code).body

    def go(i, start, binding):
        if i == len(ps):
            return True
        for j in range(start, len(ss)):
            r = _node_embeds(ps[i], ss[j], binding)
            if r is None:
                return None
            for b in r:
                res = go(i + 1, j + 1, b)
                if res is None or res:
                    return res
        return False
    return go(0, 0, {})


STRATEGIES = {'pairs': cases, 'flat': flat_cases, 'flatcont': flat_continued_cases}


def class_cases(tier):
    """One placeholder used as a class name and as a variable / called function / argument: a single identifier throughout."""
    patterns = ['class _x_:\n    pass\n_x_ = 1', 'class _c_:\n    pass\n_c_()', 'class _c_:\n    pass\nprint(_c_)', 'class _c_:\n    pass\n_v_ = _c_()',
                'class _c_:\n    pass\n_c_ = _c_()', 'def _f_():\n    pass\nclass _f_:\n    pass', 'class _c_(_b_):\n    pass\n_b_ = 1']
    programs = ['class A:\n    pass\nb = 1', 'class A:\n    pass\nA = 1', 'class A:\n    pass\nB()', 'class A:\n    pass\nA()', 'class A:\n    pass\nprint(A)',
                'class A:\n    pass\nprint(b)', 'class A:\n    pass\nx = A()', 'class A:\n    pass\nx = B()', 'class A:\n    pass\nA = A()',
                'def g():\n    pass\nclass A:\n    pass', 'def A():\n    pass\nclass A:\n    pass', 'class A(B):\n    pass\nB = 1', 'class A(B):\n    pass\nC = 1']
    for pat in patterns:
        for prog in programs:
            yield {'flat': True, 'code': prog + '\n', 'pattern': pat}


ENUMS = {'classes': class_cases}


# ---------------------------------------------------------------------------------------------------------
def mutate_pattern(pattern, mutation, index, program):
    """One small edit of the pattern text (AST level).  Returns new text or None."""
    try:
        tree = ast.parse(pattern)
    except Exception:
        return None
    nodes = list(ast.walk(tree))
    if mutation == 'rename-id':
        names = [n for n in nodes if isinstance(n, ast.Name) and not PLACE.match(n.id)]
        if not names:
            return None
        t = names[index % len(names)]
        t.id = t.id + '_other'
    elif mutation == 'literal':
        consts = [n for n in nodes if isinstance(n, ast.Constant) and isinstance(n.value, (int, float, str)) and not isinstance(n.value, bool)]
        if not consts:
            return None
        t = consts[index % len(consts)]
        if index % 4 == 3:
            t.value = None          # a near miss that is the literal None
        else:
            t.value = (t.value + 1) if isinstance(t.value, (int, float)) else (t.value + 'x')
    elif mutation == 'literal-type':
        consts = [n for n in nodes if isinstance(n, ast.Constant) and type(n.value) in (int, float, bool)]
        if not consts:
            return None
        t = consts[index % len(consts)]
        v = t.value
        if type(v) is bool:
            t.value = int(v)
        elif type(v) is int:
            t.value = float(v) if v not in (0, 1) or index % 2 else bool(v)
        elif v == int(v):
            t.value = int(v)
        else:
            return None
    elif mutation == 'operator':
        ops = [n for n in nodes if isinstance(n, ast.BinOp)]
        if not ops:
            return None
        t = ops[index % len(ops)]
        t.op = ast.Sub() if not isinstance(t.op, ast.Sub) else ast.Add()
    elif mutation == 'compare-op':
        ops = [n for n in nodes if isinstance(n, ast.Compare)]
        if not ops:
            return None
        t = ops[index % len(ops)]
        sibling = {ast.Lt: ast.LtE, ast.LtE: ast.Lt, ast.Gt: ast.GtE, ast.GtE: ast.Gt, ast.Is: ast.IsNot, ast.IsNot: ast.Is, ast.In: ast.NotIn,
                   ast.NotIn: ast.In, ast.Eq: ast.NotEq, ast.NotEq: ast.Eq}
        t.ops = [sibling[type(o)]() for o in t.ops]
    elif mutation == 'swap-args':
        calls = [n for n in nodes if isinstance(n, ast.Call) and len(n.args) >= 2 and ast.dump(n.args[0]) != ast.dump(n.args[1])]
        if not calls:
            return None
        t = calls[index % len(calls)]
        t.args[0], t.args[1] = t.args[1], t.args[0]
    elif mutation == 'dup-var':
        # put an existing _var_ placeholder onto a different identifier
        vars_ = [n for n in nodes if isinstance(n, ast.Name) and VAR.match(n.id)]
        plain = [n for n in nodes if isinstance(n, ast.Name) and not PLACE.match(n.id)]
        if not vars_ or not plain:
            return None
        plain[index % len(plain)].id = vars_[0].id
    elif mutation == 'add-stmt':
        if not isinstance(tree, ast.Module) or not tree.body:
            return None
        tree.body.insert(index % (len(tree.body) + 1), ast.parse('brand_new_name_zq = 12345').body[0])
    elif mutation == 'global-extra':
        gl = [n for n in nodes if isinstance(n, (ast.Global, ast.Nonlocal))]
        if not gl:
            return None
        gl[index % len(gl)].names.append('extra_name_zq')
    elif mutation == 'flag':
        # content that is a plain number / flag of a statement rather than a literal: how relative an import is, whether an
        # annotated target is a bare name
        flagged = [n for n in nodes if isinstance(n, ast.ImportFrom) or (isinstance(n, ast.AnnAssign) and isinstance(n.target, ast.Name))]
        if not flagged:
            return None
        t = flagged[index % len(flagged)]
        if isinstance(t, ast.ImportFrom):
            t.level = 0 if t.level else 1 + index % 2
            if t.level == 0 and not t.module:
                return None
        else:
            t.simple = 0 if t.simple else 1       # `(x): int = 1` instead of `x: int = 1`
    try:
        out = ast.unparse(ast.fix_missing_locations(tree))
        ast.parse(out)
        return out
    except Exception:
        return None


def is_placeholder_node(node):
    if isinstance(node, ast.Name) and PLACE.match(node.id):
        return node.id
    if isinstance(node, ast.Expr) and isinstance(node.value, ast.Name) and (WILD.match(node.value.id) or EXP.match(node.value.id)):
        return node.value.id
    if isinstance(node, ast.arg) and PLACE.match(node.arg):
        return node.arg
    if isinstance(node, ast.Attribute) and (EXP.match(node.attr) or WILD.match(node.attr)):
        return node.attr        # a dunder attribute makes the whole Attribute node an expression placeholder
    return None


def prim_equal(a, b):
    return type(a) is type(b) and (a == b or (a != a and b != b))


def check_match(m, viol, desc):
    """Independent witness check of one AstMap."""
    pairs = list(m.mappings.items())
    if not pairs:
        viol.append(V('C10|empty-witness', '%s: match has no node pairs' % desc))
        return
    partner = {id(p): s for p, s in pairs}
    keys = {id(p): p for p, s in pairs}
    var_ids = {}
    for p, s in pairs:
        pa, sa = p.astNode, s.astNode
        ph = is_placeholder_node(pa)
        if ph:
            if VAR.match(ph):
                ident = getattr(sa, 'id', None) or getattr(sa, 'arg', None) or getattr(sa, 'attr', None) or getattr(sa, 'name', None)
                if not isinstance(sa, (ast.Name, ast.arg, ast.Attribute, ast.FunctionDef, ast.ClassDef)) or ident is None:
                    viol.append(V('C10|var-binds-non-identifier', '%s: %s is paired with a %s node' % (desc, ph, type(sa).__name__)))
                    return
                var_ids.setdefault(ph, set()).add(ident)
            elif EXP.match(ph) and not WILD.match(ph):
                bound = m.exp_table.get(ph)
                if bound is None or not any(bound is s2 for p2, s2 in pairs if is_placeholder_node(p2.astNode) == ph):
                    viol.append(V('C10|expr-binding', '%s: %s is bound to a subtree that is not the node paired with the placeholder' % (desc, ph)))
                    return
            continue
        if isinstance(pa, (ast.Pass, ast.Module)):
            continue
        if isinstance(pa, ast.Expr):
            continue      # transparent wrapper (pedal: "an Expression node should match to anything", shallow_match_Expr)
        if isinstance(pa, (ast.expr_context,)):
            continue
        if type(pa) is not type(sa):
            viol.append(V('C10|kind-mismatch|%s' % type(pa).__name__, '%s: pattern %s node paired with student %s node' % (desc, type(pa).__name__, type(sa).__name__)))
            return
        for field, pv in ast.iter_fields(pa):
            if isinstance(pa, ast.Constant) and field == 'value' and pv is None:
                if getattr(sa, 'value', 0) is not None:      # the literal None: not an absent field
                    viol.append(V('C10|content-mismatch|Constant.value', '%s: pattern literal None paired with student value %r' % (desc, getattr(sa, 'value', None))))
                    return
                continue
            if field in ('ctx', 'type_comment', 'kind') or pv is None:
                continue
            sv = getattr(sa, field, None)
            if isinstance(pv, PRIMS):
                if field in ('name', 'attr', 'arg', 'id') and isinstance(pv, str) and PLACE.match(pv):
                    if VAR.match(pv):
                        var_ids.setdefault(pv, set()).add(sv)
                    continue
                if not prim_equal(pv, sv):
                    viol.append(V('C10|content-mismatch|%s.%s' % (type(pa).__name__, field), '%s: pattern %s.%s = %r paired with student value %r'
                                  % (desc, type(pa).__name__, field, pv, sv)))
                    return
            elif isinstance(pv, list) and pv and all(isinstance(x, PRIMS) for x in pv):
                if not (isinstance(sv, list) and len(sv) == len(pv) and all(prim_equal(a, b) for a, b in zip(pv, sv))):
                    viol.append(V('C10|content-mismatch|%s.%s' % (type(pa).__name__, field), '%s: pattern %s.%s = %r paired with student value %r'
                                  % (desc, type(pa).__name__, field, pv, sv)))
                    return
        # children: mapped, direct children of the partner, in order
        last_index = -1
        commutative = isinstance(pa, ast.BinOp) and isinstance(pa.op, (ast.Add, ast.Mult))
        idxs = []
        for c in p.children:
            if isinstance(c.astNode, ast.expr_context):
                continue
            if id(c) not in partner:
                viol.append(V('C10|unmapped-pattern-node|%s' % type(c.astNode).__name__, '%s: pattern node %s (child of %s) has no partner'
                              % (desc, type(c.astNode).__name__, type(pa).__name__)))
                return
            sc = partner[id(c)]
            if sc.parent is not s:
                viol.append(V('C10|not-a-direct-child|%s' % type(pa).__name__, '%s: partner of pattern child %s is not a direct child of the partner of its parent %s'
                              % (desc, type(c.astNode).__name__, type(pa).__name__)))
                return
            try:
                idx = next(i for i, x in enumerate(s.children) if x is sc)
            except StopIteration:
                viol.append(V('C10|not-a-direct-child|%s' % type(pa).__name__, '%s: partner not among the children' % desc))
                return
            idxs.append(idx)
        if commutative:
            if len(set(idxs)) != len(idxs):
                viol.append(V('C10|children-reused|BinOp', '%s: two pattern operands share one student operand' % desc))
                return
        else:
            for a, b in zip(idxs, idxs[1:]):
                if b <= a:
                    viol.append(V('C10|children-order|%s' % type(pa).__name__, '%s: partners of the children of %s are not in increasing order (%r)'
                                  % (desc, type(pa).__name__, idxs)))
                    return
    for ph, ids in var_ids.items():
        if len(ids) > 1:
            viol.append(V('C10|var-inconsistent', '%s: %s is bound to several identifiers %r' % (desc, ph, sorted(map(str, ids)))))
            return
    for key, lst in list(m.symbol_table.items()) + list(m.func_table.items()):
        try:
            got = {s.id for s in lst}
        except Exception:
            got = set()
        if len(got) > 1:
            viol.append(V('C10|var-inconsistent', '%s: symbol table lists %r for %s' % (desc, sorted(got), key)))
            return
    # match_root is the partner of the (trimmed) pattern root
    tops = [p for p, s in pairs if p.parent is None or id(p.parent) not in keys]
    if m.match_root is not None and tops:
        if not any(partner[id(t)] is m.match_root for t in tops):
            viol.append(V('C10|match_root', '%s: match_root is not the partner of the pattern root' % desc))


def concrete_nodes(pattern):
    try:
        tree = ast.parse(pattern)
    except Exception:
        return 0
    return sum(1 for n in ast.walk(tree) if not isinstance(n, (ast.expr_context, ast.Module, ast.Expr)) and not is_placeholder_node(n))


def judge_flat(case):
    from pedal.core.report import MAIN_REPORT
    from pedal.cait.cait_api import find_matches
    code, pattern = case['code'], case['pattern']
    MAIN_REPORT.full_clear()
    viol = []
    try:
        matches = find_matches(pattern, code)
    except BaseException as e:
        import traceback
        tb = traceback.extract_tb(e.__traceback__)[-1]
        MAIN_REPORT.full_clear()
        return Result([V('C10|find_matches-raises:%s@%s' % (type(e).__name__, tb.name), 'find_matches raised %s: %s (%s:%s)\npattern:\n%s\nprogram:\n%s'
                         % (type(e).__name__, e, tb.filename, tb.lineno, pattern, code))], True, ['kind=flat'])
    desc = 'pattern %r in program %r' % (pattern, code)
    exists = flat_embedding_exists(pattern, code)
    classes = ['kind=flat', 'flat-embedding=%s' % exists, 'matches=%d' % min(len(matches), 3)]
    if exists is False and matches:
        viol.append(V('C10|flat|match-without-embedding', 'no increasing choice of statements embeds the pattern, but %d match(es) were returned: %s' % (len(matches), desc)))
    for m in matches[:20]:
        before = len(viol)
        check_match(m, viol, desc)
        if len(viol) > before:
            break
    # continuing from a match (use_previous): what was bound before stays bound to the same identifier
    cont = case.get('continue')
    if cont and matches and not viol:
        classes.append('continued-match')
        base = matches[0]
        bound = {}
        for key, lst in list(base.symbol_table.items()) + list(base.func_table.items()):
            try:
                bound[key] = {sym.id for sym in lst}
            except Exception:
                pass
        try:
            more = find_matches(cont, code, use_previous=base)
        except BaseException as e:
            more = []
            viol.append(V('C10|continued|raises:%s' % type(e).__name__, 'find_matches(%r, use_previous=match of %r) raised %r' % (cont, pattern, e)))
        inherited = {id(p) for p in base.mappings}
        for r in more[:10]:
            # an expression placeholder of the continuation pattern names the subtree at ITS position, whatever an earlier match
            # bound to a placeholder of the same name
            for p, s_node in r.mappings.items():
                ph = is_placeholder_node(p.astNode)
                if id(p) in inherited or not ph or not EXP.match(ph) or WILD.match(ph):
                    continue
                own = [s2 for p2, s2 in r.mappings.items() if id(p2) not in inherited and is_placeholder_node(p2.astNode) == ph]
                bound_now = r.exp_table.get(ph)
                if not any(bound_now is s2 for s2 in own):
                    classes.append('continued-with-same-expression-name')
                    viol.append(V('C10|continued|expr-binding', 'continuing %r from a match of %r in %r: %s is bound to %s, not to the subtree standing at the placeholder (%s)'
                                  % (cont, pattern, code, ph, ast.dump(bound_now.astNode)[:80] if bound_now is not None else None,
                                     ', '.join(ast.dump(s2.astNode)[:80] for s2 in own))))
                    break
            if viol:
                break
            for key, lst in list(r.symbol_table.items()) + list(r.func_table.items()):
                try:
                    ids = {sym.id for sym in lst}
                except Exception:
                    continue
                if len(ids | bound.get(key, set())) > 1:
                    viol.append(V('C10|continued|var-inconsistent', 'continuing %r from a match of %r in %r: %s is bound to %r (earlier match: %r)'
                                  % (cont, pattern, code, key, sorted(ids), sorted(bound.get(key, set())))))
                    break
            if viol:
                break
    MAIN_REPORT.full_clear()
    return Result(viol[:2], bool(matches) or exists is False, classes)


def judge(case):
    if case.get('flat'):
        return judge_flat(case)
    from pedal.core.report import MAIN_REPORT
    from pedal.cait.cait_api import find_matches
    code, kind = case['code'], case['kind']
    try:
        ast.parse(code)
        ast.parse(case['other'])
    except Exception:
        return Result([], False, ['unparsable'], ambiguous=1)
    source = case['other'] if kind == 'c' else code
    try:
        stages = D.derive(source, case['derivation'])
    except RecursionError:
        stages = None
    if not stages:
        return Result([], False, ['no-derivation'], ambiguous=1)
    pattern = stages[-1]['pattern']
    classes = ['kind=' + kind]
    near = False
    if kind == 'b':
        mutated = mutate_pattern(pattern, case['mutation'], case['index'], code)
        if mutated is not None:
            pattern, near = mutated, True
            classes.append('mutation=' + case['mutation'])
    elif kind == 'd':
        mutated = mutate_pattern(pattern, 'add-stmt', case['index'], code) if len(stages[0]['pattern'].split('\n')) > 1 else None
        if mutated is None:
            mutated = mutate_pattern(pattern, 'rename-id', case['index'], code) or mutate_pattern(pattern, 'literal', case['index'], code)
            if mutated is not None:
                # make the changed content certainly foreign
                # ... in one of several shapes, including concrete names that merely look like placeholders (_a_b, __a__b, ___a)
                shape = ['%s_foreign_zq', '_%s_foreign_zq', '__%s__foreign_zq', '___%s_foreign_zq'][case['index'] % 4]
                mutated = re.sub(r'\b(\w+?)_other\b', lambda m: shape % m.group(1).strip('_'), mutated)
                classes.append('foreign-name-shape=%d' % (case['index'] % 4))
        if mutated is None or ('brand_new_name_zq' not in mutated and '_foreign_zq' not in mutated):
            kind = 'a'
        else:
            pattern, near = mutated, True
    MAIN_REPORT.full_clear()
    viol = []
    try:
        matches = find_matches(pattern, code)
    except BaseException as e:
        import traceback
        tb = traceback.extract_tb(e.__traceback__)[-1]
        MAIN_REPORT.full_clear()
        return Result([V('C10|find_matches-raises:%s@%s' % (type(e).__name__, tb.name), 'find_matches raised %s: %s (%s:%s)\npattern:\n%s\nprogram:\n%s'
                         % (type(e).__name__, e, tb.filename, tb.lineno, pattern, code[:400]))], True, classes)
    classes.append('matches=%d' % min(len(matches), 3))
    desc = 'pattern %r in program %r' % (pattern[:200], code[:300])
    if kind == 'd' and matches:
        viol.append(V('C10|foreign-content-matched', 'the pattern contains content that occurs nowhere in the program but %d match(es) were returned: %s'
                      % (len(matches), desc)))
    for m in matches[:20]:
        before = len(viol)
        try:
            check_match(m, viol, desc)
        except Exception as e:
            import traceback
            raise RuntimeError('witness checker failed: %s\n%s' % (traceback.format_exc(), desc))
        if len(viol) > before:
            break
    nontrivial = (concrete_nodes(pattern) >= 3 and bool(matches)) or near
    MAIN_REPORT.full_clear()
    return Result(viol[:2], nontrivial, classes)


def plan(tier):
    n = 500 if tier == 'quick' else 20000
    return [Task('hyp', 'pairs', shards=12, examples=scale(n)), Task('hyp', 'flat', shards=3, examples=scale(4 * n)),
            Task('hyp', 'flatcont', shards=1, examples=scale(2 * n)), Task('enum', 'classes', shards=1)]
