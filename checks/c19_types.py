"""C19 - TIFA's operator typing and value typing agree with what CPython does at run time."""
import itertools
import math

from hypothesis import strategies as st

from vlib.driver import Result, Task, V
from checks.c01_resolver import scale

ID = 'C19'
LEVEL = 'exploration'
RULE = ('(a) complete table: 13 binary operators + 10 comparisons x ordered pairs of operand types (int, float, str, list, '
        'tuple) x 4x4 (thorough 8x8) sample values, program "a = <lit>; b = <lit>; c = a <op> b; print(c)"; '
        '(b) Hypothesis expression trees (depth <= 3) over typed variables, evaluated under 4 environments; (c) Hypothesis '
        'JSON-like nested values for get_pedal_type_from_value. Oracle: CPython itself (eval) - TypeError for every sample '
        'of the operand types => incompatible_types must be reported on that line; nothing raised and nothing reported => '
        'inferred type is a pedal Type and the run-time value conforms (independent conformance checker); value types are '
        'stable under is_subtype(t, t) and conform to the normalised Python type. Non-trivial: operand types differ, or '
        'the result type differs from both operand types, or the value is a nested/heterogeneous container. Distinct = '
        'SHA-1 of the JSON case.')
ASSUMPTIONS = ['a literal type used as a container element type stands for its base type (pedal treats Int as acceptable for LiteralInt)',
               'a tuple value of another length than its TupleType (t * n) conforms when every element conforms to some element type',
               'expression trees use binary operators, comparisons and not only (the property speaks of binary operators and comparisons)',
               'element types of lists are checked only for homogeneous sample lists (all samples are)',
               'operand type pairs where only some samples raise TypeError are not judged for the must-report direction',
               'a TIFA report where CPython does not raise is not a violation (statement is one-directional)']
EXHAUSTIVE_NOTE = 'the operator x type-pair x sample table is enumerated completely; trees and values are sampled'

BINOPS = ['+', '-', '*', '/', '//', '%', '**', '<<', '>>', '|', '^', '&', '@']
CMPOPS = ['==', '!=', '<', '<=', '>', '>=', 'is', 'is not', 'in', 'not in']
SAMPLES = {
    'int': ['0', '1', '-2', '7'],
    'float': ['0.0', '1.5', '-2.5', '3.0'],
    'str': ["''", "'a'", "'%d'", "'abc'"],
    'list': ['[]', '[1, 2]', '[3]', '[0, 5]'],
    'tuple': ['()', '(1,)', '(1, 2)', '(3, 4)'],
}
# thorough: more samples per core type (the statement quantifies over the five core types only)
MORE = {
    'int': ['3', '-1', '100', '2'],
    'float': ['0.5', '-0.0', '2.0', '1e10'],
    'str': ["'%s'", "'1'", "'a b'", "'{}'"],
    'list': ['[1]', '[2, 2, 2]', '[-1, 0]', '[10]'],
    'tuple': ['(0,)', '(1, 2, 3)', '(2, 1)', '(9, 9)'],
}
CORE = ['int', 'float', 'str', 'list', 'tuple']


def samples(tier, t):
    return SAMPLES[t] + (MORE[t] if tier == 'thorough' else [])


def types_for(tier):
    return CORE


def table(tier):
    ts = types_for(tier)
    for op in BINOPS + CMPOPS:
        for ta, tb in itertools.product(ts, ts):
            n = 8 if tier == 'thorough' else 4
            for ia, ib in itertools.product(range(n), range(n)):
                yield {'kind': 'table', 'op': op, 'ta': ta, 'tb': tb, 'ia': ia, 'ib': ib, 'n': n}


ENUMS = {'table': table}


# ---------------------------------------------------------------------------------------------
def conforms(value, t, depth=0):
    """Does the run-time value conform to the pedal type?  Written against class names, not is_subtype."""
    name = type(t).__name__
    if depth > 8:
        return True
    if name == 'AnyType':
        return True
    if depth > 0 and name in ('LiteralInt', 'LiteralFloat', 'LiteralStr', 'LiteralBool'):
        # as an element type a literal stands for its base type (pedal's own is_subtype accepts Int where a
        # LiteralInt element is expected, and widest_type may keep the literal of one element)
        base = {'LiteralInt': int, 'LiteralFloat': float, 'LiteralStr': str, 'LiteralBool': bool}[name]
        return isinstance(value, base)
    if name == 'LiteralInt':
        return type(value) is int and value == t.value
    if name == 'LiteralFloat':
        return type(value) is float and (value == t.value or (value != value and t.value != t.value))
    if name == 'LiteralStr':
        return type(value) is str and value == t.value
    if name == 'LiteralBool':
        return type(value) is bool and value == t.value
    if name == 'IntType':
        return isinstance(value, int)
    if name == 'FloatType':
        return type(value) is float
    if name == 'NumType':
        return isinstance(value, (int, float, complex))
    if name == 'StrType':
        return type(value) is str
    if name == 'BoolType':
        return type(value) is bool
    if name == 'NoneType':
        return value is None
    if name in ('ListType', 'SetType', 'FrozenSetType'):
        want = {'ListType': list, 'SetType': (set, frozenset), 'FrozenSetType': (frozenset, set)}[name]
        if not isinstance(value, want):
            return False
        et = getattr(t, 'element_type', None)
        if et is None or not len(value):
            return True
        return all(conforms(v, et, depth + 1) for v in value)
    if name == 'TupleType':
        if type(value) is not tuple:
            return False
        if not isinstance(t.element_types, (tuple, list)):
            return False   # malformed tuple type (element_types is not a sequence of types)
        ets = list(t.element_types)
        if len(ets) == len(value):
            return all(conforms(v, e, depth + 1) for v, e in zip(value, ets))
        # repetition (t * n) keeps the operand's tuple type: accept when every element conforms to some element type
        return all(any(conforms(v, e, depth + 1) for e in ets) for v in value)
    if name == 'DictType':
        return isinstance(value, dict)
    return None   # some other Type: cannot decide


def outcomes(expr, envs):
    out = []
    for env in envs:
        try:
            out.append(('ok', eval(expr, {'__builtins__': {}}, dict(env))))
        except Exception as e:
            out.append(('raise', e))
    return out


def analyse(code):
    from pedal.core.commands import contextualize_report
    from pedal.core.report import MAIN_REPORT
    from pedal.tifa.commands import tifa_analysis
    MAIN_REPORT.full_clear()
    contextualize_report(code)
    return tifa_analysis()


def analyse_after(previous, code):
    """The same report (and so the same Tifa instance) analysed another program first."""
    from pedal.core.commands import contextualize_report
    from pedal.core.report import MAIN_REPORT
    from pedal.tifa.commands import tifa_analysis
    MAIN_REPORT.full_clear()
    contextualize_report(previous)
    tifa_analysis()
    return tifa_analysis(code)


def judge_program(code, expr, envs, this_env, cellbase, line, viol, classes, previous=None):
    from pedal.types.new_types import Type
    outs = outcomes(expr, envs)
    n_te = sum(1 for o in outs if o[0] == 'raise' and isinstance(o[1], TypeError))
    this = outcomes(expr, [this_env])[0]
    try:
        tifa = analyse(code) if previous is None else analyse_after(previous, code)
    except Exception as e:
        viol.append(V(cellbase + '|tifa-raises', 'tifa_analysis raised %r on %r' % (e, code)))
        return 0
    if not tifa.success:
        classes.append('tifa-internal-failure(left to C18)')
        return 1
    reported = [f for f in tifa.issues.get('incompatible_types', []) if f.location is None or f.location.line == line]
    ambiguous = 0
    if n_te == len(outs):
        classes.append('typelevel-typeerror')
        if not reported:
            viol.append(V(cellbase + '|missed-typeerror', 'CPython raises TypeError for every sample of %r (%s) but TIFA '
                                                          'reports no incompatible types' % (expr, outs[0][1])))
    elif n_te:
        classes.append('value-dependent-typeerror')
        ambiguous = 1
    if this[0] == 'ok' and not reported and not any(tifa.issues.get(k) for k in ('incompatible_types',)):
        var = tifa.top_level_variables.get('c')
        if var is None:
            viol.append(V(cellbase + '|no-variable', 'TIFA has no top-level variable c for %r' % code))
        else:
            t = var.type
            if not isinstance(t, Type):
                viol.append(V(cellbase + '|not-a-type', 'type inferred for %r is %r (%s), not a pedal Type'
                              % (expr, t, type(t).__name__)))
            else:
                ok = conforms(this[1], t)
                if ok is None:
                    ambiguous = 1
                elif not ok:
                    viol.append(V(cellbase + '|nonconforming', '%s with %r evaluates to %r (%s) but TIFA infers %s'
                                  % (expr, this_env, this[1], type(this[1]).__name__, type(t).__name__)))
                else:
                    classes.append('conforming')
    return ambiguous


def judge_table(case):
    op, ta, tb = case['op'], case['ta'], case['tb']
    tier = 'thorough' if case.get('n', 4) == 8 else 'quick'
    sa, sb = samples(tier, ta), samples(tier, tb)
    envs = [{'a': eval(x), 'b': eval(y)} for x, y in itertools.product(sa, sb)]
    a_src, b_src = sa[case['ia']], sb[case['ib']]
    expr = 'a %s b' % op
    code = 'a = %s\nb = %s\nc = %s\nprint(c)\n' % (a_src, b_src, expr)
    viol, classes = [], ['table', 'op=' + op]
    previous = None
    if (case['ia'] + 2 * case['ib']) % 3 == 0:
        # one cell in three is analysed on a report that has just analysed a same-shaped program with other operand types
        previous = 'a = 1\nb = "x"\nc = a %s b\nprint(c)\n' % op
        classes.append('same-report-history')
    line = 3
    if previous is None and (case['ia'] + case['ib']) % 4 == 1:
        # the operands are first initialised with an empty value of their kind and given their real value afterwards
        empty = {'int': '0', 'float': '0.0', 'str': "''", 'list': '[]', 'tuple': '()'}
        if ta in empty and tb in empty:
            code = 'a = %s\nb = %s\n' % (empty[ta], empty[tb]) + code
            line = 5
            classes.append('operands-reassigned-from-empty')
    amb = judge_program(code, expr, envs, {'a': eval(a_src), 'b': eval(b_src)}, 'C19|op=%s|%s,%s' % (op, ta, tb), line, viol, classes, previous)
    this = outcomes(expr, [{'a': eval(a_src), 'b': eval(b_src)}])[0]
    restype = type(this[1]).__name__ if this[0] == 'ok' else None
    nontrivial = ta != tb or (restype is not None and restype not in (ta, tb))
    return Result(viol, nontrivial, classes, amb)


# ---------------------------------------------------------------------------------------------
VARS = {'x': 'int', 'y': 'int', 'f': 'float', 's': 'str', 'l': 'list', 't': 'tuple'}
ENVS = [
    {'x': 3, 'y': 2, 'f': 1.5, 's': 'ab', 'l': [1, 2], 't': (1, 2)},
    {'x': 1, 'y': 5, 'f': 0.5, 's': 'q', 'l': [4], 't': (3, 4)},
    {'x': 7, 'y': 1, 'f': 2.0, 's': 'xyz', 'l': [0, 9, 8], 't': (5, 6)},
    {'x': 2, 'y': 3, 'f': 4.25, 's': 'hello', 'l': [7, 7], 't': (0, 1)},
]
_leaf = st.one_of(st.sampled_from(sorted(VARS)), st.sampled_from(['1', '2', '0.5', "'a'", '[1]', '(1, 2)', 'True']))
_tree = st.recursive(_leaf, lambda ch: st.one_of(
    st.tuples(ch, st.sampled_from(['+', '-', '*', '/', '//', '%', '**', '<', '<=', '==', '!=', '>', 'in', '&', '|']), ch)
    .map(lambda t: '(%s %s %s)' % t),
    # chained comparisons: each link is a comparison of its own two neighbours
    st.tuples(ch, st.sampled_from(['<', '<=', '==', '!=', '>']), ch, st.sampled_from(['<', '<=', '!=', '>', 'in']), ch).map(lambda t: '(%s %s %s %s %s)' % t),
    ch.map(lambda c: '(not %s)' % c)), max_leaves=6)


def trees(tier):
    return st.fixed_dictionaries({'kind': st.just('tree'), 'expr': _tree, 'env': st.integers(0, 3)})


def judge_tree(case):
    expr = case['expr']
    env = ENVS[case['env']]
    code = ''.join('%s = %r\n' % (k, v) for k, v in sorted(env.items())) + 'c = %s\nprint(c)\n' % expr
    viol, classes = [], ['tree']
    if '**' in expr:
        try:   # keep magnitudes sane
            for e in ENVS:
                v = eval(expr, {'__builtins__': {}}, dict(e))
        except Exception:
            pass
    amb = judge_program(code, expr, ENVS, env, 'C19|tree', len(env) + 1, viol, classes)
    # coarse root cause for trees: the outermost operator
    if viol:
        import ast
        node = ast.parse(expr, mode='eval').body
        opname = type(getattr(node, 'op', None) or (node.ops[0] if hasattr(node, 'ops') else node)).__name__
        tag = 'contains-pow' if '**' in expr else 'outer=' + opname
        viol = [V(v.cell.replace('C19|tree', 'C19|tree|' + tag), v.msg) for v in viol]
    depth = expr.count('(')
    return Result(viol, depth >= 2, classes, amb)


# ---------------------------------------------------------------------------------------------
_scalar = st.one_of(st.integers(-5, 5), st.floats(allow_nan=False, allow_infinity=False, width=16), st.booleans(),
                    st.none(), st.sampled_from(['', 'a', 'b c']))
_hashable = st.recursive(st.one_of(st.integers(-3, 3), st.booleans(), st.none(), st.sampled_from(['', 'a', 'k']),
                                   st.floats(allow_nan=False, allow_infinity=False, width=16)),
                         lambda ch: st.lists(ch, max_size=3).map(tuple), max_leaves=4)


def _to_json(v):
    """Encode a python value (with tuples/sets/non-str dict keys) as JSON-able tagged data."""
    if isinstance(v, tuple):
        return {'t': 'tuple', 'v': [_to_json(i) for i in v]}
    if isinstance(v, (set, frozenset)):
        return {'t': 'set', 'v': sorted((_to_json(i) for i in v), key=repr)}
    if isinstance(v, list):
        return {'t': 'list', 'v': [_to_json(i) for i in v]}
    if isinstance(v, dict):
        return {'t': 'dict', 'v': [[_to_json(k), _to_json(x)] for k, x in v.items()]}
    return v


def _from_json(j):
    if isinstance(j, dict):
        if j['t'] == 'tuple':
            return tuple(_from_json(i) for i in j['v'])
        if j['t'] == 'set':
            return set(_from_json(i) for i in j['v'])
        if j['t'] == 'list':
            return [_from_json(i) for i in j['v']]
        return {_from_json(k): _from_json(x) for k, x in j['v']}
    return j


_value = st.recursive(_scalar, lambda ch: st.one_of(
    st.lists(ch, max_size=4), st.lists(ch, max_size=3).map(tuple), st.frozensets(_hashable, max_size=3),
    st.dictionaries(_hashable, ch, max_size=3)), max_leaves=8)


def values(tier):
    return _value.map(lambda v: {'kind': 'value', 'value': _to_json(v)})


def nesting(v):
    if isinstance(v, (list, tuple, set, frozenset)):
        return 1 + max([nesting(i) for i in v] or [0])
    if isinstance(v, dict):
        return 1 + max([max(nesting(k), nesting(x)) for k, x in v.items()] or [0])
    return 0


def judge_value(case):
    from pedal.types.normalize import get_pedal_type_from_value, normalize_type
    from pedal.types.new_types import is_subtype, Type
    v = _from_json(case['value'])
    outer = type(v).__name__
    viol = []
    kinds = {type(i).__name__ for i in v} if isinstance(v, (list, tuple, set, frozenset)) else set()
    nontrivial = nesting(v) >= 2 or len(kinds) >= 2
    try:
        t = get_pedal_type_from_value(v)
    except Exception as e:
        return Result([V('C19|value|raises|%s' % outer, 'get_pedal_type_from_value(%r) raised %s: %s' % (v, type(e).__name__, e))],
                      nontrivial, ['value', 'outer=' + outer])
    if not isinstance(t, Type):
        viol.append(V('C19|value|not-a-type|%s' % outer, 'type of %r is %r' % (v, t)))
        return Result(viol, nontrivial, ['value'])
    try:
        first, second = is_subtype(t, t), is_subtype(t, t)
        if first is not True or second is not True:
            viol.append(V('C19|value|unstable-self-subtype|%s' % outer,
                          'is_subtype(t, t) for the type of %r gave %r then %r' % (v, first, second)))
        norm = normalize_type(type(v)).as_type()
        if is_subtype(t, norm) is not True:
            viol.append(V('C19|value|not-subtype-of-normalised|%s' % outer,
                          'type %s of %r is not a subtype of normalize_type(%s) = %s' % (t, v, outer, norm)))
    except Exception as e:
        viol.append(V('C19|value|subtype-raises|%s' % outer, 'is_subtype/normalize_type raised %r for %r' % (e, v)))
    return Result(viol, nontrivial, ['value', 'outer=' + outer])


def judge(case):
    if case['kind'] == 'table':
        return judge_table(case)
    if case['kind'] == 'tree':
        return judge_tree(case)
    return judge_value(case)


STRATEGIES = {'trees': trees, 'values': values}


def plan(tier):
    k = 1 if tier == 'quick' else 30
    return [Task('enum', 'table', shards=10), Task('hyp', 'trees', shards=3, examples=scale(400 * k)),
            Task('hyp', 'values', shards=3, examples=scale(1000 * k))]
