"""C20 - each feedback call is recorded once, truthfully, rendered from its fields; overrides restored by clear."""
import string

from hypothesis import strategies as st

from vlib.driver import Result, Task, V
from vlib.stateful import judge_ops
from checks.c01_resolver import scale

ID = 'C20'
LEVEL = 'exploration'
RULE = ('Hypothesis rule-based state machine on MAIN_REPORT (<=20 steps): create feedback from a pool of core commands, '
        'a tool feedback class and run-time generated instructor subclasses (parent/child pair) with scripted condition '
        'outcome true/false/truthy-nonbool/falsy-nonbool/raises, explicit message / template (plain, {f}, {f:spec}, {f!r}, '
        'missing field) / neither, activate, delay_condition + later _handle_condition, int/str/live-group parents; '
        'override(cls, field=value) on any pool class; clear_report / contextualize_report; set_formatter(marker|html|default). '
        'Oracle after every step: membership counts by identity, truth value, error path, independent template renderer, '
        'pristine class-attribute snapshot after clear. Non-trivial: history has an override followed by a clear, or a '
        'raising condition/message, or a template with a format spec. Distinct = SHA-1 of the JSON op list.')
ASSUMPTIONS = ['formatter methods themselves are trusted (the oracle checks which one is dispatched and on what value)',
               'override fields limited to title/message_template/muted/priority/score/category/correct',
               'harness force-restores class attributes before every history so a leak in one case cannot hide another']
MIN_NONTRIVIAL = {'quick': 50, 'thorough': 50}

OVERRIDE_FIELDS = ['title', 'message_template', 'muted', 'priority', 'score', 'category', 'correct']
OVERRIDE_VALUES = {
    'title': ['OT1', 'OT2', ''], 'message_template': ['OV {k}', 'OV plain', 'OV {k:name}'], 'muted': [True, False],
    'priority': ['low', 'high', 'syntax'], 'score': [1, '+5%'], 'category': ['student', 'style'], 'correct': [True, False],
}
POOL = ['Feedback', 'FeedbackResponse', 'explain', 'gently', 'compliment', 'set_correct', 'guidance', 'give_partial',
        'system_error', 'blank_source', 'GenParent', 'GenChild', 'GenOther', 'GenConst', 'GenConst', 'GenEq', 'GenEq']
GEN = ('GenParent', 'GenChild', 'GenOther', 'GenConst', 'GenEq')
TEMPLATES = ['plain text', 'k={k}', 'k={k} unit={unit}', 'n={n} k={k}', '{k:name}', 'see {k:python_value} and {n:filename}', '{k!r}',
             '{k:frame}|{n:line}', '{k:python_expression}{k:output}', '{k:traceback}', '{k:inputs}', '{k:exception}',
             '{k:python_code}', '{{literal}} {k}', '{missing}', '{k:name} {missing:name}',
             # attribute and index access on a field (str.format resolves them on the wrapped field)
             # width / alignment: applied to the text of the field, whatever it holds (an int is not right-aligned, a bool stays True)
             '[{n:4}] [{k:>6}]', '|{k:^9}|{n:<3}|', '{n:5}|', 'n={n:3} k={k:3}', '{k:6}{n:6}',
             'call {fn.__name__} first', 'call {fn.__name__:name} first ({fn.__qualname__!r})', '{k.real} and {n[0]}', '{n[0]:name}']
FIELD_VALUES = ['abc', 'x y', '__dunder__', '<tag>', 7, 0, '']
SPECS = ['exception', 'filename', 'frame', 'traceback', 'inputs', 'line', 'name', 'output', 'python_code',
         'python_expression', 'python_value']

_state = {}


def setup():
    """Build the class pool once per process and take the pristine snapshot."""
    if _state:
        return _state
    from pedal.core.feedback import Feedback, FeedbackResponse, FeedbackGroup
    from pedal.core import commands as C
    from pedal.core.formatting import Formatter, HtmlFormatter
    from pedal.source.feedbacks import blank_source

    outcomes = {'true': True, 'false': False, 'truthy': [1], 'falsy': 0}

    class GenParent(Feedback):
        category = 'instructor'
        title = 'Gen Parent'
        message_template = 'parent says {k}'

        def condition(self, outcome='true', **kwargs):
            if outcome == 'raise':
                raise ValueError('scripted condition failure')
            return outcomes[outcome]

    class GenChild(GenParent):
        title = 'Gen Child'

    class GenConst(GenParent):
        title = 'Gen Const'
        message_template = 'const {k} in {unit}'
        constant_fields = {'unit': 'px', 'scale': 2}     # keys the caller never passes: no precedence question

    class GenEq(GenParent):
        # an instructor's class with value equality (so that complaints can be de-duplicated in a set): two calls are still two records
        title = 'Gen Eq'

        def __eq__(self, other):
            return isinstance(other, GenEq) and other.label == self.label

        def __hash__(self):
            return hash(self.label)

    class GenOther(Feedback):
        category = 'specification'
        field_names = ['k', 'n']

        def condition(self, outcome='true', **kwargs):
            if outcome == 'raise':
                raise KeyError('scripted')
            return outcomes[outcome]

    class Grp(FeedbackGroup):
        category = 'system'
        muted = True
        message = 'group'
        title = 'group'
        priority = 'lowest'
        score = None
        correct = None

        def __init__(self, **kw):
            self.children = []
            super().__init__(**kw)

        def _get_child_feedback(self, feedback, active):
            self.children.append((feedback, active))

    class MarkerFormatter(Formatter):
        pass

    def mk(name):
        def method(self, value, *a):
            return '<%s:%s>' % (name, value)
        return method
    for name in SPECS:
        setattr(MarkerFormatter, name, mk(name))

    classes = {'Feedback': Feedback, 'FeedbackResponse': FeedbackResponse, 'explain': C.explain, 'gently': C.gently,
               'compliment': C.compliment, 'set_correct': C.set_correct, 'guidance': C.guidance,
               'give_partial': C.give_partial, 'system_error': C.system_error, 'blank_source': blank_source,
               'GenParent': GenParent, 'GenChild': GenChild, 'GenOther': GenOther, 'GenConst': GenConst, 'GenEq': GenEq}
    snapshot_attrs = OVERRIDE_FIELDS + ['message', 'kind', 'valence', 'unscored', 'else_message']
    pristine = {n: {a: getattr(c, a) for a in snapshot_attrs} for n, c in classes.items()}
    own = {n: {a: (a in c.__dict__, c.__dict__.get(a)) for a in snapshot_attrs} for n, c in classes.items()}
    import copy
    _state['constant_fields'] = {n: copy.deepcopy(getattr(c, 'constant_fields', None)) for n, c in classes.items()}
    _state.update(classes=classes, pristine=pristine, own=own, attrs=snapshot_attrs, Grp=Grp,
                  formatters={'marker': MarkerFormatter, 'html': HtmlFormatter, 'default': Formatter})
    return _state


def force_restore():
    s = setup()
    for n, c in s['classes'].items():
        for a, (had, val) in s['own'][n].items():
            if had:
                setattr(c, a, val)
            elif a in c.__dict__:
                delattr(c, a)
        if '_override_backups' in c.__dict__:
            delattr(c, '_override_backups')
        if s.get('constant_fields', {}).get(n) is not None and c.constant_fields != s['constant_fields'][n]:
            import copy
            c.constant_fields = copy.deepcopy(s['constant_fields'][n])
    from pedal.core.feedback import Feedback
    Feedback._override_backups = None


def render_reference(template, fields, formatter):
    """Independent rendering of a template: {f} -> str(value); {f:spec} -> formatter.spec(value); {f!r} -> repr."""
    out = []
    import _string
    for literal, name, spec, conv in string.Formatter().parse(template):
        out.append(literal)
        if name is None:
            continue
        first, rest = _string.formatter_field_name_split(name)
        value = fields[first]   # KeyError when the field is missing: the message "raises"
        for is_attribute, key in rest:
            value = getattr(value, key) if is_attribute else value[key]     # ... or when the field has no such attribute / item
        if conv == 'r':
            out.append(repr(value))
        elif conv == 's' or not spec:
            out.append(str(value))
        elif spec in SPECS:
            out.append(format(getattr(formatter, spec)(value), ''))
        else:
            out.append(format(str(value), spec))      # not the name of a formatter method: an ordinary spec for the field's text
    return ''.join(out)


class Stepper:
    def __init__(self, tier):
        from pedal.core.report import MAIN_REPORT
        self.s = setup()
        force_restore()
        MAIN_REPORT.full_clear()
        self.report = MAIN_REPORT
        self.live = []        # (obj, expected_in_feedback) recorded since last clear
        self.delayed = []     # objects created with delay_condition
        self.groups = []
        self.n_ops = 0
        self.flags = set()
        self.overridden_since_clear = False
        self.shared_fields = {}

    # ---------------- strategies
    def op_strategy(self):
        create = st.fixed_dictionaries({
            'op': st.just('create'),
            'cls': st.sampled_from(POOL),
            'outcome': st.sampled_from(['true', 'true', 'false', 'truthy', 'falsy', 'raise']),
            'msg': st.sampled_from(['explicit', 'template', 'template', 'class', 'none']),
            'template': st.sampled_from(TEMPLATES),
            'fields': st.fixed_dictionaries({}, optional={'k': st.sampled_from(FIELD_VALUES), 'n': st.sampled_from(FIELD_VALUES), 'fn': st.sampled_from(['@len', '@sorted'])}),
            'as_kwargs': st.booleans(),
            'delay': st.sampled_from([False, False, False, True]),
            'parent': st.sampled_from([None, None, 1, 'g', 'group']),
            'label': st.sampled_from([None, 'lab_a', 'lab_b']),
        }, optional={'shared': st.just(True)})
        say = st.fixed_dictionaries({'op': st.just('say'), 'fn': st.sampled_from(['log', 'debug']),
                                     'items': st.lists(st.sampled_from(['hello', 'x = 5', '', '{braces}', 'two words']), min_size=1, max_size=2)})
        override = st.sampled_from(OVERRIDE_FIELDS).flatmap(lambda f: st.fixed_dictionaries({
            'op': st.just('override'), 'cls': st.sampled_from(POOL), 'field': st.just(f),
            'value': st.sampled_from(OVERRIDE_VALUES[f])}, optional={'other_report': st.just(True)}))
        options = [create, create, create, override, override, say,
                   st.just({'op': 'clear'}), st.just({'op': 'contextualize'}),
                   st.fixed_dictionaries({'op': st.just('set_formatter'), 'fmt': st.sampled_from(['marker', 'html', 'default'])}),
                   st.just({'op': 'group'})]
        if self.delayed:
            options.append(st.fixed_dictionaries({'op': st.just('handle'), 'index': st.integers(0, 7)}))
        return st.one_of(options)

    # ---------------- helpers
    def count(self, obj):
        return (sum(1 for f in self.report.feedback if f is obj), sum(1 for f in self.report.ignored_feedback if f is obj))

    def invariant(self, viol):
        for obj, expected in self.live:
            inf, ini = self.count(obj)
            if (inf, ini) != ((1, 0) if expected else (0, 1)):
                viol.append(V('C20|bookkeeping|count', 'object %r expected in %s exactly once, found feedback x%d ignored x%d'
                              % (obj.label, 'feedback' if expected else 'ignored_feedback', inf, ini)))
                break
            if bool(obj) != expected:
                viol.append(V('C20|bookkeeping|truth', 'bool(%r)=%r but outcome was %r' % (obj.label, bool(obj), expected)))
                break
        for obj in self.delayed:
            if self.count(obj) != (0, 0):
                viol.append(V('C20|bookkeeping|delayed-recorded', 'delayed feedback %r already recorded' % obj.label))
                break
        known = {id(o) for o, _ in self.live}
        extra = [f for f in self.report.feedback + self.report.ignored_feedback if id(f) not in known]
        if extra:
            viol.append(V('C20|bookkeeping|phantom', 'report holds %d feedback objects nobody created: %r'
                          % (len(extra), [f.label for f in extra][:3])))

    def check_restored(self, viol, why):
        other_only = self.__dict__.get('other_only', set())
        inherited_from = lambda n: [m for m, c2 in self.s['classes'].items() if issubclass(self.s['classes'][n], c2)]
        for n, c in self.s['classes'].items():
            for a in self.s['attrs']:
                if any((m, a) in other_only for m in inherited_from(n)):
                    continue      # overridden through the second report only: stays until that report is cleared
                if getattr(c, a) != self.s['pristine'][n][a] or type(getattr(c, a)) is not type(self.s['pristine'][n][a]):
                    viol.append(V('C20|override-not-restored',
                                  'after %s: %s.%s = %r, pristine value %r' % (why, n, a, getattr(c, a), self.s['pristine'][n][a])))
                    return

    # ---------------- the operations
    def apply(self, op):
        viol = []
        self.n_ops += 1
        kind = op['op']
        try:
            if kind == 'create':
                self.do_create(op, viol)
            elif kind == 'handle':
                self.do_handle(op, viol)
            elif kind == 'say':
                self.do_say(op, viol)
            elif kind == 'override':
                cls = self.s['classes'][op['cls']]
                if op.get('other_report'):
                    # another report (a second grading context in the same script) overrides the class too; clearing the main report
                    # afterwards must still give the class its attributes back
                    from pedal.core.report import Report
                    if not hasattr(self, 'other_report'):
                        self.other_report = Report()
                    cls.override(report=self.other_report, **{op['field']: op['value']})
                    self.flags.add('override-from-second-report')
                    self.__dict__.setdefault('other_only', set()).add((op['cls'], op['field']))
                else:
                    cls.override(**{op['field']: op['value']})
                    self.__dict__.setdefault('other_only', set()).discard((op['cls'], op['field']))
                self.overridden_since_clear = True
                if getattr(cls, op['field']) != op['value']:
                    viol.append(V('C20|override-no-effect', '%s.%s not set' % (op['cls'], op['field'])))
            elif kind in ('clear', 'contextualize'):
                from pedal.core.commands import clear_report, contextualize_report
                if kind == 'clear':
                    clear_report()
                else:
                    contextualize_report('print(1)')
                if self.overridden_since_clear:
                    self.flags.add('override-then-clear')
                self.overridden_since_clear = False
                self.live, self.delayed, self.groups = [], [], []
                self.check_restored(viol, kind)
                from pedal.core.formatting import Formatter
                if type(self.report.format) is not Formatter:
                    viol.append(V('C20|formatter-not-reset', 'formatter after %s is %s' % (kind, type(self.report.format).__name__)))
            elif kind == 'set_formatter':
                from pedal.core.commands import set_formatter
                set_formatter(self.s['formatters'][op['fmt']])
            elif kind == 'group':
                g = self.s['Grp'](label='grp%d' % len(self.groups))
                self.groups.append(g)
                self.live.append((g, True))
        except Exception as e:
            import traceback
            tb = traceback.extract_tb(e.__traceback__)[-1]
            viol.append(V('C20|op-raises|%s|%s@%s' % (kind, type(e).__name__, tb.name),
                          '%s raised %s: %s (%s:%s)' % (kind, type(e).__name__, e, tb.filename, tb.lineno)))
        self.invariant(viol)
        return viol

    def build_call(self, op):
        cls = self.s['classes'][op['cls']]
        name = op['cls']
        args, kw = [], {}
        fields = {key: ({'@len': len, '@sorted': sorted}[v] if isinstance(v, str) and v.startswith('@') else v) for key, v in op['fields'].items()}
        gen = name in GEN
        if gen:
            args.append(op['outcome'])
            outcome = op['outcome']
        else:
            outcome = 'true' if op['outcome'] in ('true', 'truthy', 'raise') else 'false'
            kw['activate'] = (outcome == 'true')
        if name == 'give_partial':
            args.append('+5%')
        msg_mode = op['msg']
        needs_msg = name in ('explain', 'gently', 'compliment', 'guidance')
        if msg_mode == 'explicit' or (needs_msg and msg_mode in ('class', 'none')):
            kw['message'] = 'explicit message'
        elif msg_mode == 'template':
            kw['message_template'] = op['template']
        if op.get('shared'):
            # an instructor script that reuses one (empty) dict object for the `fields` argument of many calls; what
            # differs between the calls is passed as keywords
            kw['fields'] = self.shared_fields
            kw.update(fields)
            self.flags.add('shared-fields-dict')
        elif op['as_kwargs']:
            kw.update(fields)
        elif fields:
            kw['fields'] = dict(fields)
        if op['label']:
            kw['label'] = op['label']
        parent = op['parent']
        if parent == 'group':
            parent = self.groups[-1] if self.groups else None
        if parent is not None:
            kw['parent'] = parent
        return cls, args, kw, outcome

    def expected_message(self, cls, kw, obj_fields):
        """(text or None if unknown, raises_expected)"""
        if kw.get('message') is not None:
            return kw['message'], False
        if cls.message is not None:
            return cls.message, False
        template = kw.get('message_template', cls.message_template)
        if template is None:
            return 'No feedback message provided', False
        try:
            return render_reference(template, obj_fields, self.report.format), False
        except Exception:
            # a missing field, or the formatter method itself failing on this value: the message "raises"
            return None, True

    def given_fields(self, op, kw):
        """What the caller supplied (copied before the call) plus the class's constant fields as they were defined."""
        given = {} if op.get('shared') else dict(kw.get('fields') or {})      # the shared dict is empty as far as the caller is concerned
        for key in ('k', 'n', 'fn'):
            if key in kw:
                given[key] = kw[key]
        const = self.s['constant_fields'].get(op['cls'])
        if const:
            given.update(const)
        for name in (getattr(self.s['classes'][op['cls']], 'field_names', None) or []):
            given.setdefault(name, None)      # declared field names default to None
        return given

    def do_create(self, op, viol):
        cls, args, kw, outcome = self.build_call(op)
        self._given = self.given_fields(op, kw)
        self._cls_name = op['cls']
        if kw.get('message_template') and ':' in kw['message_template']:
            self.flags.add('format-spec')
        before = list(self.report.feedback) + list(self.report.ignored_feedback)
        n_before = len(before)
        delay = op['delay']
        if delay:
            kw['delay_condition'] = True
        obj, exc = None, None
        try:
            obj = cls(*args, **kw)
        except Exception as e:
            exc = e
        new = [f for f in self.report.feedback + self.report.ignored_feedback if not any(f is b for b in before)]
        if delay:
            if exc is not None:
                viol.append(V('C20|delayed-ctor-raises|%s' % type(exc).__name__, 'delayed construction raised %r' % exc))
                return
            if new:
                viol.append(V('C20|bookkeeping|delayed-recorded', 'delay_condition=True but object recorded'))
            obj._c20 = (cls, kw, outcome, self._given, self._cls_name)
            self.delayed.append(obj)
            return
        self.judge_outcome(cls, kw, outcome, obj, exc, new, viol)

    def judge_outcome(self, cls, kw, outcome, obj, exc, new, viol, handled=None):
        triggered = outcome in ('true', 'truthy')
        target = handled if handled is not None else obj
        fields_view = None
        if target is not None:
            fields_view = target.fields
        elif len(new) == 1:
            fields_view = new[0].fields
        expected_text, msg_raises = (None, None)
        if fields_view is not None:
            # the fields the message is rendered from are derived from the call, not read back from the object
            for key, value in self._given.items():
                if key not in fields_view or fields_view[key] != value:
                    viol.append(V('C20|fields|not-what-was-passed', '%s(**%r): field %r is %r on the object, the call and the class give %r'
                                  % (cls.__name__, kw, key, fields_view.get(key, '<missing>'), value)))
                    break
            expected_text, msg_raises = self.expected_message(cls, kw, self._given)
        const = self.s['constant_fields'].get(self._cls_name)
        if const is not None and (cls.constant_fields != const or (fields_view is not None and fields_view is cls.constant_fields)):
            viol.append(V('C20|fields|class-constant-fields-changed', 'creating %s(**%r) changed the class attribute constant_fields to %r (defined as %r)'
                          % (cls.__name__, kw, cls.constant_fields, const)))
        cond_raises = outcome == 'raise'
        should_raise = cond_raises or (triggered and msg_raises is True)
        if should_raise:
            self.flags.add('raising')
            if exc is None:
                viol.append(V('C20|error-swallowed|%s' % ('condition' if cond_raises else 'message'),
                              'condition/message raised but the constructor returned normally'))
                if target is not None:
                    self.live.append((target, bool(target)))
                return
            if cond_raises and not isinstance(exc, (ValueError, KeyError)):
                viol.append(V('C20|error-changed', 'expected the scripted exception, caller got %r' % exc))
            who = [handled] if handled is not None else new
            if len(who) != 1:
                viol.append(V('C20|bookkeeping|error-not-recorded', 'raising feedback recorded %d times' % len(who)))
                return
            o = who[0]
            self.live.append((o, False))
            if getattr(o, '_status', None) != 'error':
                viol.append(V('C20|error-status', 'status after raising condition/message is %r' % getattr(o, '_status', None)))
            return
        if exc is not None:
            viol.append(V('C20|ctor-raises|%s' % type(exc).__name__, '%s(**%r) raised %r' % (cls.__name__, kw, exc)))
            for o in new:
                self.live.append((o, bool(o)))
            return
        self.live.append((target, triggered))
        if triggered and expected_text is not None and target.message != expected_text:
            mode = 'explicit' if kw.get('message') is not None else 'template'
            viol.append(V('C20|render|%s' % mode, 'message %r, expected %r (template %r fields %r formatter %s)'
                          % (target.message, expected_text, kw.get('message_template', cls.message_template),
                             dict(target.fields), type(self.report.format).__name__)))
        if target._status != ('active' if triggered else 'inactive'):
            viol.append(V('C20|status', 'status %r for outcome %r' % (target._status, outcome)))

    def do_say(self, op, viol):
        """log(...) / debug(...): muted feedback recorded as triggered, delivering what was said as its message."""
        from pedal.core import commands as C
        before = list(self.report.feedback) + list(self.report.ignored_feedback)
        getattr(C, op['fn'])(*op['items'])
        new_f = [f for f in self.report.feedback if not any(f is b for b in before)]
        new_i = [f for f in self.report.ignored_feedback if not any(f is b for b in before)]
        for o in new_f:
            self.live.append((o, True))
        for o in new_i:
            self.live.append((o, False))
        self.flags.add('say')
        # log() joins its items into one message, debug() reports each item by itself
        want = [' '.join(op['items'])] if op['fn'] == 'log' else list(op['items'])
        if len(new_f) != len(want) or new_i:
            viol.append(V('C20|say|%s|count' % op['fn'], '%s(*%r) recorded %d triggered and %d untriggered feedback'
                          % (op['fn'], op['items'], len(new_f), len(new_i))))
            return
        got = [o.message for o in new_f]
        if got != want:
            viol.append(V('C20|say|%s|message' % op['fn'], '%s(*%r) delivered the messages %r' % (op['fn'], op['items'], got)))

    def do_handle(self, op, viol):
        obj = self.delayed.pop(op['index'] % len(self.delayed))
        cls, kw, outcome, self._given, self._cls_name = obj._c20
        exc = None
        try:
            obj._handle_condition()
        except Exception as e:
            exc = e
        self.flags.add('delayed-handled')
        self.judge_outcome(cls, kw, outcome, None, exc, [], viol, handled=obj)

    def finish(self, viol):
        classes = sorted(self.flags)
        nontrivial = bool(self.flags & {'override-then-clear', 'raising', 'format-spec'})
        from pedal.core.report import MAIN_REPORT
        MAIN_REPORT.full_clear()
        force_restore()
        return Result(viol, nontrivial, classes)


MACHINES = {'report': Stepper}


def plan(tier):
    n = 150 if tier == 'quick' else 5000
    return [Task('machine', 'report', shards=16, examples=scale(n), steps=20)]


def judge(case):
    return judge_ops(Stepper, 'quick', case['ops'])
