"""C04 - student-code failures are contained and reported, never raised into the grader."""
import builtins
import itertools
import re
import sys

from hypothesis import strategies as st

from vlib.driver import Result, Task, V
from vlib import gen_cs1 as CS1
from checks.c01_resolver import scale

ID = 'C04'
LEVEL = 'fault_enumeration'
RULE = ('Fault enumeration: failure source (every Exception subclass in builtins with the constructor arguments it needs, '
        'user-defined classes incl. failing __str__/__repr__, non-str __str__, 10 kB message, shadowed builtin name, '
        'ExceptionGroup, chained/from/in-except/in-finally raises, SystemExit via exit()/quit()/sys.exit()/raise, unbounded '
        'recursion, compile-time syntax errors incl. NUL/indentation/unterminated string, blocked compile/eval/exec/globals/'
        'exit/open-for-writing/open(.py)/import pedal) x position (top level, function, call depth 5 and 30, method, '
        'comprehension, generator, finally, imported second student file) x entry point (run, call, evaluate) x threaded x '
        'tracer style (none, native, calls, coverage); plus Hypothesis splices of a source into random G-CS1 programs. Oracle: '
        'the call returns; get_exception() has the injected class; exactly one new runtime feedback named after it; its line '
        'is the marked student line. Non-trivial: every case injects a failure; distinct by (source, position, entry, '
        'threaded, tracer) / SHA-1 of the spliced program.')
ASSUMPTIONS = ['os._exit, native crashes and memory exhaustion cannot be contained by an exec-based sandbox and are not generated',
               'for exit()/quit() and blocked features the reported class is whatever the sandbox raises for them (not asserted)',
               'RecursionError: the line is not asserted (depends on the stack height)']
EXHAUSTIVE = {'quick': False, 'thorough': True}
EXHAUSTIVE_NOTE = ('thorough enumerates the whole source x position x entry x threaded x tracer product; quick enumerates all '
                   'sources x positions x entries unthreaded/untraced plus a covering subset of the threaded/tracer axes')
MARK = '# RAISE-HERE'


def builtin_exception_sources():
    out = {}
    special = {
        'UnicodeDecodeError': "UnicodeDecodeError('utf8', b'x', 0, 1, 'reason')",
        'UnicodeEncodeError': "UnicodeEncodeError('utf8', 'x', 0, 1, 'reason')",
        'UnicodeTranslateError': "UnicodeTranslateError('x', 0, 1, 'reason')",
        'ExceptionGroup': "ExceptionGroup('group', [ValueError(1), KeyError('k')])",
        'BaseExceptionGroup': None,
    }
    for name in sorted(dir(builtins)):
        obj = getattr(builtins, name)
        if isinstance(obj, type) and issubclass(obj, Exception) and obj.__name__ == name:   # aliases (IOError, EnvironmentError) skipped
            if name in special:
                if special[name]:
                    out[name] = ([], 'raise ' + special[name], name)
            else:
                out[name] = ([], "raise %s('message for %s')" % (name, name), name)
    return out


USER_SOURCES = {
    'user-plain': (['class E1(Exception):', '    pass'], "raise E1('plain')", 'E1'),
    'user-multi-inherit': (['class E2(KeyError, ValueError):', '    pass'], "raise E2('multi')", 'E2'),
    'user-required-arg': (['class E3(Exception):', '    def __init__(self, code, detail):', '        super().__init__(detail)', '        self.code = code'],
                          "raise E3(7, 'detail')", 'E3'),
    'user-str-raises': (['class E4(Exception):', '    def __str__(self):', "        raise RuntimeError('broken __str__')"], "raise E4('x')", 'E4'),
    'user-repr-raises': (['class E5(Exception):', '    def __repr__(self):', "        raise RuntimeError('broken __repr__')"], "raise E5('x')", 'E5'),
    'user-str-nonstr': (['class E6(Exception):', '    def __str__(self):', '        return 42'], "raise E6('x')", 'E6'),
    'user-huge-message': (['class E7(Exception):', '    pass'], "raise E7('m' * 10000)", 'E7'),
    'user-shadows-builtin': (['class ValueError(Exception):', '    pass'], "raise ValueError('shadow')", 'ValueError'),
    'user-empty-message': (['class E8(Exception):', '    pass'], 'raise E8()', 'E8'),
    'user-nonstring-arg': (['class E9(Exception):', '    pass'], 'raise E9({"a": [1, 2]}, 3)', 'E9'),
    'user-str-raises-own-class': (['class E10(Exception):', '    def __str__(self):', "        raise E10('again')"], "raise E10('x')", 'E10'),
    'user-setattr-raises': (['class E11(Exception):', '    def __setattr__(self, key, value):', "        raise AttributeError('this exception is frozen')"],
                            "raise E11('frozen')", 'E11'),
    'user-getattr-raises': (['class E12(Exception):', '    def __getattr__(self, key):', "        raise RuntimeError('no attribute access: ' + key)"],
                            "raise E12('hostile')", 'E12'),
    'user-eq-bool-raise': (['class E13(Exception):', '    def __eq__(self, other):', "        raise RuntimeError('no eq')", '    def __bool__(self):',
                            "        raise RuntimeError('no bool')", '    __hash__ = None'], "raise E13('strict')", 'E13'),
    'user-feedback-property': (['class E14(Exception):', '    @property', '    def feedback(self):', "        return 'mine'"], "raise E14('has feedback')", 'E14'),
    'user-empty-name': (["E15 = type('', (Exception,), {})"], "raise E15('anonymous')", ''),
    'user-args-replaced': (['class E16(Exception):', '    def __init__(self, *a):', '        super().__init__(*a)', '        self.args = None if False else (object(),)'],
                           "raise E16('odd args')", 'E16'),
    'literal-eval-syntaxerror': (['import ast'], "ast.literal_eval('[1, 2\\n 3]')", 'SyntaxError'),
    'compile-in-string-syntaxerror': (['import ast'], "ast.parse('def (:')", 'SyntaxError'),
    'closed-stdout-print': (['import sys'], "sys.stdout.close() or print('after close')", 'ValueError'),
    'many-inputs-then-fail': (['def read_many(n):', '    for _ in range(n):', '        input()', '    return 0'], "read_many(45) or int('not a number')", 'ValueError'),
    'runaway-input-loop': (['def read_forever():', '    while True:', "        input('more?')  " + MARK], 'read_forever()', None),
    # the failure is raised many pure-Python library frames below the student's line
    'deep-stdlib-json': (['import json'], "json.dumps({'a': [{'b': [{'c': [{'d': [{1, 2}]}]}]}]}, indent=2)", 'TypeError'),
    'deep-stdlib-copy': (['import copy'], "copy.deepcopy({'a': [[[[[[[(x for x in [1])]]]]]]]})", 'TypeError'),
    'int-too-long': ([], "int('9' * 5000)", 'ValueError'),
    'chained-from': ([], "raise ValueError('outer') from KeyError('inner')", 'ValueError'),
    'chained-from-none': ([], "raise TypeError('no context') from None", 'TypeError'),
    'implicit': ([], "x = [1, 2, 3][10]", 'IndexError'),
    'implicit-zero-div': ([], "x = 1 / 0", 'ZeroDivisionError'),
    'implicit-name': ([], "x = undefined_variable_name", 'NameError'),
    'implicit-attr': ([], "x = (5).nope", 'AttributeError'),
    'implicit-key': ([], "x = {'a': 1}['b']", 'KeyError'),
    'implicit-type': ([], "x = 'a' + 1", 'TypeError'),
    'assert': ([], "assert 1 == 2, 'math is broken'", 'AssertionError'),
    'sys-exit-code': (['import sys'], 'sys.exit(3)', 'SystemExit'),
    'sys-exit-message': (['import sys'], "sys.exit('bye')", 'SystemExit'),
    'raise-systemexit': ([], 'raise SystemExit', 'SystemExit'),
    'raise-systemexit-arg': ([], "raise SystemExit('stop')", 'SystemExit'),
    'exit-builtin': ([], 'exit()', None),
    'quit-builtin': ([], 'quit()', None),
    'blocked-compile': ([], "compile('1', 'f', 'eval')", None),
    'blocked-eval': ([], "eval('1 + 1')", None),
    'blocked-exec': ([], "exec('y = 1')", None),
    'blocked-globals': ([], 'globals()', None),
    'blocked-open-write': ([], "open('output.txt', 'w')", None),
    'blocked-open-py': ([], "open('grader.py')", None),
    'blocked-import-pedal': ([], 'import pedal', None),
    'blocked-import-pedal-sub': ([], 'import pedal.core.report', None),
    'blocked-from-pedal': ([], 'from pedal.core import report', None),
    'recursion': (['def recurse(n):', '    return recurse(n + 1) + 1'], 'recurse(0)', 'RecursionError'),
}
RAISE_IN_EXCEPT = ('raise-in-except', (['def handler():', '    try:', "        raise KeyError('first')", '    except KeyError:', "        raise ValueError('second')  " + MARK],
                                       'handler()', 'ValueError'))
RAISE_IN_FINALLY = ('raise-in-finally', (['def cleanup():', '    try:', "        raise KeyError('first')", '    finally:', "        raise OSError('in finally')  " + MARK],
                                         'cleanup()', 'OSError'))
# the frame runs more of its own code (clean-up) after the failure was raised in it and before the failure leaves it
USER_SOURCES['raise-then-finally'] = (['def guarded():', '    try:', "        raise KeyError('in the try block')  " + MARK, '    finally:', '        done = True', '        other = 2'],
                                      'guarded()', 'KeyError')
USER_SOURCES['implicit-then-finally'] = (['def guarded2(v):', '    try:', '        return 10 // v  ' + MARK, '    finally:', "        note = 'cleaning up'", '        note = note.upper()'],
                                         'guarded2(0)', 'ZeroDivisionError')
# exception classes that some layer between the student code and the grader (debugger base class of the call tracer, the timeout
# wrapper, generators, unittest) gives a meaning of its own
USER_SOURCES['stdlib-bdbquit'] = (['import bdb'], "raise bdb.BdbQuit('student quits the debugger')", 'BdbQuit')
USER_SOURCES['stdlib-timeouterror'] = ([], "raise TimeoutError('the student says time is up')", 'TimeoutError')
USER_SOURCES['stdlib-skiptest'] = (['import unittest'], "raise unittest.SkipTest('skipping')", 'SkipTest')
# a SyntaxError built by the program itself (a parser assignment): its position fields are whatever the student put there
USER_SOURCES['made-up-syntaxerror'] = ([], "raise SyntaxError('my own parser gave up', ('input.txt', 3, 1, 'x y z'))", 'SyntaxError')
USER_SOURCES['made-up-syntaxerror-odd-fields'] = ([], "raise SyntaxError('my own parser gave up', ('f', 'x', 'y', 'z'))", 'SyntaxError')
USER_SOURCES['made-up-syntaxerror-negative'] = ([], "raise SyntaxError('m', ('answer.py', -5, -5, 'abc', -7, -9))", 'SyntaxError')
USER_SOURCES['stdlib-notimplemented'] = ([], "raise NotImplementedError", 'NotImplementedError')
SYNTAX_SOURCES = {
    'syntax-unclosed-paren': 'x = (1,\nprint(x)\n',
    'syntax-bad-indent': 'if True:\nx = 1\n',
    'syntax-unexpected-indent': 'x = 1\n    y = 2\n',
    'syntax-tab-mix': 'if True:\n\tx = 1\n        y = 2\n',
    'syntax-unterminated-string': "x = 'abc\nprint(x)\n",
    'syntax-nul-byte': 'x = 1\x00\n',
    'syntax-keyword': 'def = 5\n',
    'syntax-return-outside': 'return 5\n',
    'syntax-empty-expression': 'x = \n',
}
POSITIONS = ['top', 'function', 'depth5', 'depth30', 'method', 'comprehension', 'generator', 'finally', 'imported', 'imported-toplevel']
ENTRIES = ['run', 'call', 'evaluate']
TRACERS = ['none', 'native', 'calls', 'coverage']

_SOURCES = {}


def sources():
    if not _SOURCES:
        _SOURCES.update(builtin_exception_sources())
        _SOURCES.update(USER_SOURCES)
        _SOURCES[RAISE_IN_EXCEPT[0]] = RAISE_IN_EXCEPT[1]
        _SOURCES[RAISE_IN_FINALLY[0]] = RAISE_IN_FINALLY[1]
    return _SOURCES


def build_program(source_id, position, prefix=''):
    """Returns (files dict, main code, expected class name or None, call expression for call/evaluate, marked line or None)."""
    setup, stmt, expected = sources()[source_id]
    has_mark = any(MARK in l for l in setup)
    raising = stmt if has_mark else stmt + '  ' + MARK
    lines = list(setup)
    files = {}
    if position == 'top':
        body = [raising]
        wrap_def = ['def target():'] + ['    ' + l for l in body] + ['    return 1']
    elif position == 'function':
        wrap_def = ['def inner():', '    ' + raising, '    return 1', 'def target():', '    return inner()']
    elif position in ('depth5', 'depth30'):
        d = 5 if position == 'depth5' else 30
        wrap_def = ['def level0():', '    ' + raising, '    return 1']
        for i in range(1, d):
            wrap_def += ['def level%d():' % i, '    return level%d()' % (i - 1)]
        wrap_def += ['def target():', '    return level%d()' % (d - 1)]
    elif position == 'method':
        wrap_def = ['class Thing:', '    def act(self):', '        ' + raising, '        return 1', 'def target():', '    return Thing().act()']
    elif position == 'comprehension':
        wrap_def = ['def boom():', '    ' + raising, '    return 1', 'def target():', '    return [boom() for _ in range(2)]']
    elif position == 'generator':
        wrap_def = ['def boom():', '    ' + raising, '    return 1', 'def gen():', '    yield boom()', 'def target():', '    return list(gen())']
    elif position == 'finally':
        wrap_def = ['def target():', '    try:', '        pass', '    finally:', '        ' + raising, '    return 1']
    elif position == 'imported':
        helper = '\n'.join(list(setup) + ['def boom():', '    ' + raising, '    return 1']) + '\n'
        files['helper.py'] = helper
        lines = []
        wrap_def = ['import helper', 'def target():', '    return helper.boom()']
    elif position == 'imported-toplevel':
        # the failure happens while the second file is being imported (with threaded=True: in a thread of its own)
        files['helper.py'] = '\n'.join(list(setup) + [raising, 'loaded = True']) + '\n'
        lines = []
        wrap_def = ['def target():', '    import helper', '    return 1']
    main_lines = ([prefix.rstrip('\n')] if prefix else []) + lines + wrap_def
    main_for_run = '\n'.join(main_lines + ['target()']) + '\n'
    main_for_call = '\n'.join(main_lines) + '\n'
    return files, main_for_run, main_for_call, expected


def marked_line(text):
    # lines as CPython counts them: a lone carriage return ends a line too
    for i, l in enumerate(re.split(r'\r\n|\r|\n', text), 1):
        if MARK in l:
            return i
    return None


def reset_process_state():
    sys.settrace(None)
    if sys.stdout is not sys.__stdout__ and not hasattr(sys.stdout, 'fileno'):
        sys.stdout = sys.__stdout__


def safe_text(value):
    try:
        return str(value)[:200]
    except BaseException:
        return '<unprintable %s>' % type(value).__name__


def is_sandbox_result(value):
    """Harness-side test that never touches the (possibly hostile) wrapped object's attributes."""
    return type(value).__name__ == 'SandboxResult' and type(value).__module__ == 'pedal.sandbox.result'


def judge(case):
    from pedal.core.report import MAIN_REPORT
    from pedal.core.submission import Submission
    from pedal.sandbox.commands import get_sandbox
    reset_process_state()
    sid, position, entry = case['source'], case.get('position', 'top'), case['entry']
    if sid in ('StopIteration', 'StopAsyncIteration') and position == 'generator':
        # PEP 479: CPython itself turns a StopIteration raised inside a generator into RuntimeError at the yield
        return Result([], False, ['skipped-pep479'])
    threaded, tracer = case.get('threaded', False), case.get('tracer', 'none')
    viol, classes = [], ['entry=' + entry, 'position=' + position, 'threaded=%s' % threaded, 'tracer=' + tracer]
    MAIN_REPORT.full_clear()
    if sid in SYNTAX_SOURCES:
        code = case.get('prefix', '') + SYNTAX_SOURCES[sid]
        files = {'answer.py': code}
        expected, run_code, call_code = 'SyntaxError-family', code, None
        classes.append('kind=syntax')
    else:
        extra, run_code, call_code, expected = build_program(sid, position, case.get('prefix', ''))
        files = dict(extra)
        files['answer.py'] = run_code if entry == 'run' else call_code
        if case.get('no_final_newline'):
            files['answer.py'] = files['answer.py'].rstrip('\n')      # a file whose last line is not terminated
        classes.append('kind=' + ('builtin' if sid in builtin_exception_sources() else sid.split('-')[0]))
    MAIN_REPORT.contextualize(Submission(files=files, main_file='answer.py'))
    sb = get_sandbox()
    sb.threaded = threaded
    sb.allowed_time = 10
    try:
        sb.tracer_style = tracer
    except Exception as e:
        MAIN_REPORT.full_clear()
        return Result([], False, ['tracer-unavailable'], ambiguous=1)

    def runtime_count():
        return [f for f in MAIN_REPORT.feedback if (f.category or '').lower() == 'runtime']
    cellbase = 'C04|%s' % (sid if not sid[0].isupper() else 'builtin-exception')
    try:
        if entry == 'run' or sid in SYNTAX_SOURCES:
            before = len(runtime_count())
            sb.run()
        else:
            sb.run()
            if sb.exception is not None:
                MAIN_REPORT.full_clear()
                return Result([V('C04|harness|definitions-failed', 'defining the functions failed: %s' % safe_text(sb.exception))], True, classes)
            before = len(runtime_count())
            if entry == 'call':
                sb.call('target')
            else:
                sb.evaluate('target()')
    except BaseException as e:
        import traceback
        tb = traceback.extract_tb(e.__traceback__)[-1]
        MAIN_REPORT.full_clear()
        reset_process_state()
        return Result([V('%s|escapes:%s' % (cellbase, type(e).__name__), '%s(%s at %s, threaded=%s, tracer=%s): %s escaped into the grader: %s (%s:%s)'
                         % (entry, sid, position, threaded, tracer, type(e).__name__, safe_text(e), tb.filename, tb.lineno))], True, classes + ['escaped'])
    exc = sb.exception
    if is_sandbox_result(exc):
        exc = object.__getattribute__(exc, 'value')
    after = runtime_count()
    desc = '%s(%s at %s, threaded=%s, tracer=%s)' % (entry, sid, position, threaded, tracer)
    if exc is None:
        viol.append(V(cellbase + '|exception-not-recorded', '%s: the failure is not available as the sandbox exception' % desc))
    else:
        got = type(exc).__name__
        if expected == 'SyntaxError-family':
            if not isinstance(exc, SyntaxError):
                viol.append(V(cellbase + '|exception-class', '%s: expected a SyntaxError, sandbox exception is %s' % (desc, got)))
        elif expected is not None and got != expected:
            viol.append(V(cellbase + '|exception-class', '%s: injected %s but the sandbox exception is %s: %s' % (desc, expected, got, safe_text(exc))))
    new = len(after) - before
    if new != 1:
        viol.append(V(cellbase + '|runtime-feedback-count', '%s: %d runtime feedbacks attached for one failure' % (desc, new)))
    elif exc is not None:
        fb = after[-1]
        name = fb.fields.get('exception_name')
        if name != type(exc).__name__:
            viol.append(V(cellbase + '|feedback-names-other-class', '%s: feedback describes %r, the exception is %s' % (desc, name, type(exc).__name__)))
        want = None
        if sid in SYNTAX_SOURCES:
            try:
                compile(files['answer.py'], 'answer.py', 'exec')
            except SyntaxError as se:
                want = se.lineno
        elif expected != 'RecursionError' and position != 'imported':
            want = marked_line(files['answer.py'])
        if want is not None:
            line = fb.location.line if fb.location is not None else None
            if line != want:
                viol.append(V(cellbase + '|line', '%s: failure raised on student line %r, feedback located at %r' % (desc, want, line)))
    MAIN_REPORT.full_clear()
    reset_process_state()
    return Result(viol, True, classes)


def table(tier):
    src = sorted(sources())
    full = tier == 'thorough'
    for sid in src:
        for position, entry in itertools.product(POSITIONS, ENTRIES):
            combos = list(itertools.product([False, True], TRACERS)) if full else [(False, 'none')]
            for threaded, tracer in combos:
                yield {'source': sid, 'position': position, 'entry': entry, 'threaded': threaded, 'tracer': tracer}
    if not full:
        # covering subset of the threaded / tracer axes: every source with every (threaded, tracer) pair at rotating position/entry
        i = 0
        for sid in src:
            for threaded, tracer in itertools.product([False, True], TRACERS):
                if (threaded, tracer) == (False, 'none'):
                    continue
                yield {'source': sid, 'position': POSITIONS[i % len(POSITIONS)], 'entry': ENTRIES[i % 3], 'threaded': threaded, 'tracer': tracer}
                i += 1
    for sid in sorted(SYNTAX_SOURCES):
        for threaded, tracer in itertools.product([False, True], TRACERS):
            yield {'source': sid, 'position': 'top', 'entry': 'run', 'threaded': threaded, 'tracer': tracer}
        yield {'source': sid, 'position': 'top', 'entry': 'run', 'threaded': False, 'tracer': 'none', 'prefix': 'a = 1\nb = 2\n'}
    # files with old-Mac / stray carriage returns (a line break for CPython, not for str.split('\n')), with and without a final newline:
    # the failing lines lie at and just beyond the end of a '\n'-separated line table
    for sid in ('implicit-zero-div', 'implicit-name', 'user-empty-message', 'sys-exit-code', 'assert', 'raise-then-finally'):
        for prefix in ('a = 1\rb = 2\n', 'a = 1\rb = 2\rc = 3\n', 'a = 1\r\nb = 2\r'):
            for entry in ('run', 'call'):
                for nfn in (False, True):
                    yield {'source': sid, 'position': 'top' if entry == 'run' else 'function', 'entry': entry, 'threaded': False, 'tracer': 'none',
                           'prefix': prefix, 'no_final_newline': nfn}


ENUMS = {'table': table}


def spliced(tier):
    """A failure source placed after a random CS1 prefix (so line numbers and namespace contents vary)."""
    return st.builds(lambda p, sid, pos, entry, threaded, tracer: {'source': sid, 'position': pos, 'entry': entry, 'threaded': threaded,
                                                                   'tracer': tracer, 'prefix': p['code']},
                     CS1.cs1_program(max_statements=6, risk=False, allow_input=False), st.sampled_from(sorted(sources())),
                     st.sampled_from(POSITIONS[:-1]), st.sampled_from(ENTRIES), st.booleans(), st.sampled_from(TRACERS))


STRATEGIES = {'spliced': spliced}


def plan(tier):
    n = 150 if tier == 'quick' else 4000
    return [Task('enum', 'table', shards=12), Task('hyp', 'spliced', shards=4, examples=scale(n))]
