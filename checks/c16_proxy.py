"""C16 - the result proxy is transparent for every operation that works on the real value."""
import io
import itertools
import math
import operator
import sys

from hypothesis import strategies as st

from vlib.driver import Result, Task, V
from checks.c01_resolver import scale

ID = 'C16'
LEVEL = 'exploration'
RULE = ('Complete enumeration of operation x value x value x placement (proxy left/right/both) over a table of ~50 values '
        '(ints, floats, bools, complex, str, bytes, list, tuple, dict, set, frozenset, range, None, user objects with and '
        'without dunders) and ~60 operations (13 binary operators + divmod + pow/pow3, 6 comparisons, unary, len/iter/'
        'reversed/in/index/slice, hash/bool/str/repr/format/f-string, int/float/complex/round/trunc/floor/ceil/index, '
        'isinstance); proxies are real SandboxResult objects returned by Sandbox.evaluate(). Hypothesis adds random nested '
        'values. Oracle: differential against the same operation on the unwrapped values (equal value and type, no stdout, '
        'never NotImplemented; raises iff the real operation raises). Non-trivial: the real operation succeeds, or raises '
        'something other than TypeError. Distinct = SHA-1 of the JSON case.')
ASSUMPTIONS = ['real_str % proxy (right placement) is skipped: str.__mod__ probes its operand in C code',
               'membership is generated with the proxy as container (or both), not as a bare needle in a real container',
               'values are created from evaluable source text inside a real sandbox; proxies are cached per value and '
               'worker (no generated operation mutates its operand)',
               'results that are themselves proxies are unwrapped before comparison']
EXHAUSTIVE = {'quick': False, 'thorough': False}
EXHAUSTIVE_NOTE = 'the table task (operation x value x value x placement) is enumerated completely in both tiers; the random task is sampled'

STUDENT = '''
class Vec:
    def __init__(self, n): self.n = n
    def __add__(self, o): return Vec(self.n + (o.n if isinstance(o, Vec) else o))
    def __radd__(self, o): return Vec(o + self.n + 100)
    def __sub__(self, o): return Vec(self.n - (o.n if isinstance(o, Vec) else o))
    def __rsub__(self, o): return Vec(o - self.n)
    def __mul__(self, o): return Vec(self.n * o) if isinstance(o, int) else NotImplemented
    def __rmul__(self, o): return Vec(self.n * o + 1) if isinstance(o, int) else NotImplemented
    def __eq__(self, o): return isinstance(o, Vec) and o.n == self.n
    def __hash__(self): return hash(('Vec', self.n))
    def __lt__(self, o): return self.n < (o.n if isinstance(o, Vec) else o)
    def __len__(self): return abs(self.n)
    def __bool__(self): return self.n != 0
    def __repr__(self): return 'Vec(%r)' % self.n
    def __neg__(self): return Vec(-self.n)
    def __int__(self): return self.n
    def __float__(self): return float(self.n)
    def __index__(self): return self.n
    def __round__(self, nd=None): return Vec(round(self.n, nd) if nd is not None else self.n)
    def __trunc__(self): return self.n
    def __floor__(self): return self.n
    def __ceil__(self): return self.n + 1
    def __contains__(self, x): return x == self.n
    def __getitem__(self, i):
        if isinstance(i, slice): return 'slice'
        if i > 3: raise IndexError(i)
        return self.n + i
    def __format__(self, spec): return 'V<%s|%s>' % (self.n, spec)
    def __rshift__(self, o): return Vec(self.n >> o)
    def __rrshift__(self, o): return Vec(o >> self.n)
    def __rlshift__(self, o): return Vec(o << self.n)
    def __rpow__(self, o, mod=None): return Vec(o ** self.n)
    def __divmod__(self, o): return (Vec(self.n // o), self.n % o)
    def __rdivmod__(self, o): return (o // self.n, Vec(o % self.n))
    def __matmul__(self, o): return Vec(self.n * 1000 + (o.n if isinstance(o, Vec) else o))
    def __rmatmul__(self, o): return Vec(o * 1000 + self.n)
import enum
class Coin:
    # a student object whose own fields are named like the proxy's internals
    def __init__(self, value):
        self.value = value
        self._actual_value = 'mine'
        self._actual_sandbox = 'box'
        self._actual_context_id = -5
    def __repr__(self): return 'Coin(%r)' % self.value
    def __eq__(self, o): return isinstance(o, Coin) and repr(o.value) == repr(self.value)
    def __hash__(self): return hash(('Coin', self.value))
    def __bool__(self): return True
    def __len__(self): return 2
    def __iter__(self): return iter([self.value, 'tails'])
    def __contains__(self, x): return x == 'heads'
    def __lt__(self, o): return isinstance(o, Coin) and self.value < o.value
    def __add__(self, o): return Coin(self.value + (o.value if isinstance(o, Coin) else o))
    def __radd__(self, o): return Coin(o + self.value)
    def __int__(self): return 100 + self.value
class Color(enum.Enum):
    RED = 0
    BLUE = 2
def ident(x):
    return x
class Masked:
    # an object that reports another class than its type (isinstance() honours __class__)
    @property
    def __class__(self): return int
    def __repr__(self): return 'Masked()'
    is_masked = True
    def __eq__(self, o): return bool(getattr(o, 'is_masked', False))
    __hash__ = None
class Plain:
    def __init__(self): self.a = 1
    def __eq__(self, o): return isinstance(o, Plain)
    __hash__ = None
class Record:
    # attribute access goes through a dictionary (a missing name is a KeyError, not an AttributeError)
    def __init__(self, **data): self.__dict__['_data'] = dict(data)
    def __getattr__(self, name):
        if name.startswith('is_'): raise AttributeError(name)
        return self.__dict__['_data'][name]
    def __radd__(self, o): return o + self._data.get('n', 0)
    def __add__(self, o): return self._data.get('n', 0) + o
    def __eq__(self, o): return isinstance(o, Record) and o.__dict__['_data'] == self.__dict__['_data']
    def __hash__(self): return 7
    def __repr__(self): return 'Record(n=%r)' % self.__dict__['_data'].get('n')
class Shelf:
    # a container written the old way: indexing only (membership, iteration and reversed() fall back on it)
    def __init__(self, *items): self.items = list(items)
    def __getitem__(self, i): return self.items[i]
    def __len__(self): return len(self.items)
    def __repr__(self): return 'Shelf' + repr(tuple(self.items))
    def __eq__(self, o): return isinstance(o, Shelf) and o.items == self.items
    __hash__ = None
class Bag:
    # a container that can only be iterated over
    def __init__(self, *items): self.items = list(items)
    def __iter__(self): return iter(self.items)
    def __repr__(self): return 'Bag' + repr(tuple(self.items))
    def __eq__(self, o): return isinstance(o, Bag) and o.items == self.items
    __hash__ = None
'''

VALUES = ['0', '1', '-1', '2', '7', '-3', '10**20', '0.0', '1.5', '-2.5', '3.0', '2.675', "float('inf')", "float('nan')",
          'True', 'False', '(1+2j)', "''", "'a'", "'abc'", "'x y'", "'%d items'", "'3'", "b'ab'",
          '[]', '[1, 2, 3]', "['a', 'b']", '[[1], [2]]', '()', '(1, 2)', "('a', 1)", '{}', "{'a': 1}", "{1: 'x', 2: 'y'}",
          'set()', '{1, 2}', "{'a'}", 'frozenset({1})', 'range(3)', 'None', 'Vec(3)', 'Vec(0)', 'Plain()', 'Coin(5)', 'Coin(0)', 'Color.RED', 'Color.BLUE', 'Masked()', '[1.5, None]',
          "'ab' * 3", '255', '1e300', '-0.0', 'Shelf(1, 2, 7)', "Bag('a', 1)", 'Record(n=3)']

CLASSES = ['int', 'str', 'bool', 'float', 'list', 'object', 'Vec', 'Plain', 'Color', '(int, str)', '(Vec, bool)', 'type(None)']
KEYS = ['slice(0, 2)', 'slice(None, None, -1)', 'slice(1, None)']

BINARY = {
    'add': operator.add, 'sub': operator.sub, 'mul': operator.mul, 'truediv': operator.truediv,
    'floordiv': operator.floordiv, 'mod': operator.mod, 'pow': operator.pow, 'lshift': operator.lshift,
    'rshift': operator.rshift, 'and': operator.and_, 'xor': operator.xor, 'or': operator.or_, 'matmul': operator.matmul,
    'divmod': divmod, 'lt': operator.lt, 'le': operator.le, 'gt': operator.gt, 'ge': operator.ge, 'eq': operator.eq,
    'ne': operator.ne,
}
def _inplace(opfn):
    """x op= y with a second reference to x kept around: returns (x afterwards, the other reference afterwards)."""
    def f(x, y):
        keep = x
        x = opfn(x, y)
        return (x, keep)
    return f


INPLACE = {'iadd': _inplace(operator.iadd), 'isub': _inplace(operator.isub), 'imul': _inplace(operator.imul), 'ifloordiv': _inplace(operator.ifloordiv),
           'imod': _inplace(operator.imod), 'iand': _inplace(operator.iand), 'ior': _inplace(operator.ior), 'ixor': _inplace(operator.ixor),
           'itruediv': _inplace(operator.itruediv), 'ilshift': _inplace(operator.ilshift), 'irshift': _inplace(operator.irshift), 'ipow': _inplace(operator.ipow)}
IMMUTABLE = (int, float, complex, str, bytes, tuple, bool, frozenset, type(None), range)
# container-style operations: proxy is the container ('left') or container and operand ('both')
CONTAINER = {
    'isinstance_cls': lambda x, y: isinstance(x, y),
    'contains': lambda x, y: y in x,
    'getitem': lambda x, y: x[y],
    'pow3': lambda x, y: pow(x, y, 7),
    'round_n': lambda x, y: round(x, y),
    'format_spec': lambda x, y: format(x, y),
    'isinstance_other': lambda x, y: isinstance(x, type(y)),
}
UNARY = {
    'neg': operator.neg, 'pos': operator.pos, 'invert': operator.invert, 'abs': abs, 'len': len,
    'iter': lambda x: list(iter(x)), 'reversed': lambda x: list(reversed(x)), 'hash': hash, 'bool': bool, 'not': operator.not_,
    'str': str, 'repr': repr, 'format': lambda x: format(x, ''), 'format_w': lambda x: format(x, '>8'),
    'fstring': lambda x: f'[{x}] [{x!r}]', 'int': int, 'float': float, 'complex': complex, 'round': round,
    'round1': lambda x: round(x, 1), 'trunc': math.trunc, 'floor': math.floor, 'ceil': math.ceil, 'index': operator.index,
    'slice': lambda x: x[1:3], 'getitem0': lambda x: x[0], 'getitem_neg': lambda x: x[-1], 'sorted': lambda x: sorted(x),
    'sum': lambda x: sum(x), 'max': lambda x: max(x), 'enumerate': lambda x: list(enumerate(x)),
    'isinstance_own': lambda x: isinstance(x, _real_type(x)), 'isinstance_str': lambda x: isinstance(x, str),
    'isinstance_num': lambda x: isinstance(x, (int, float)), 'unpack': lambda x: [*x],
    # asking for an iterator without consuming it: fails at once on a value that cannot be iterated
    'iter_only': lambda x: iter(x) is not None, 'zip_only': lambda x: zip(x) is not None, 'enumerate_only': lambda x: enumerate(x) is not None,
    'first_of_iter': lambda x: next(iter(x)),
    # next() on a result that is an iterator itself (a generator the student's function returned); evaluated afresh for each side
    'next_fresh': lambda x: next(x),
    'str_mul_r': lambda x: 'ab' * x,
    'tuple': tuple, 'list': list, 'set': lambda x: set(x), 'dict': lambda x: dict(x), 'any': any,
    'join': lambda x: ','.join(x),
}
SPEC_VALUES = ["''", "'>6'", "'.2f'", "'d'", '1', '0', '-1', '2', '7', "'a'", '1.5', '[1, 2, 3]', 'Vec(3)', 'None', 'True']


def _real_type(x):
    from pedal.sandbox.result import is_sandbox_result
    return type(x._actual_value) if is_sandbox_result(x) else type(x)


_state = {}


def sandbox():
    if 'sb' not in _state:
        from pedal.core.commands import contextualize_report
        from pedal.core.report import MAIN_REPORT
        from pedal.sandbox.commands import run, get_sandbox
        MAIN_REPORT.full_clear()
        contextualize_report(STUDENT)
        run()
        _state['sb'] = get_sandbox()
        _state['proxies'] = {}
        _state['reals'] = {}
        _state['n'] = 0
    return _state['sb']


def real_of(src):
    sb = sandbox()
    # the very object the proxy wraps, so identity-dependent results (hash of nan, default __eq__) are comparable
    return proxy_of(src)._actual_value


def proxy_of(src):
    sb = sandbox()
    if src not in _state['proxies']:
        from pedal.sandbox.result import is_sandbox_result
        p = sb.evaluate(src)
        if not is_sandbox_result(p) or sb.exception is not None:
            raise RuntimeError('cannot build proxy for %s: %r' % (src, sb.exception))
        _state['proxies'][src] = p
        if len(sb._context) > 200:
            sb.clear_context()
    return _state['proxies'][src]


class CarryFailed(Exception):
    pass


def carried_proxy_of(src):
    """A result that went through student code twice: call('ident', call(...)).  Containers and objects are handed to the student
    function as they are (not re-created from their repr), so what comes back wraps the first result."""
    sb = sandbox()
    key = 'carried:' + src
    if key not in _state['proxies']:
        from pedal.sandbox.result import is_sandbox_result
        p = sb.call('ident', proxy_of(src))
        if not is_sandbox_result(p) or sb.exception is not None:
            # handing a result back to student code is itself an operation on the proxy (its value must arrive)
            raise CarryFailed('call(ident, <result of %s>) failed: %r' % (src, sb.exception))
        _state['proxies'][key] = p
    return _state['proxies'][key]


def unwrap(x):
    from pedal.sandbox.result import is_sandbox_result
    guard = 0
    while is_sandbox_result(x) and guard < 5:
        x = x._actual_value
        guard += 1
    if isinstance(x, tuple):
        return tuple(unwrap(i) for i in x)
    if type(x) is list:
        return [unwrap(i) for i in x]
    return x


def same(a, b, depth=0):
    if type(a) is not type(b):
        return False
    if isinstance(a, float):
        return (a != a and b != b) or (a == b and math.copysign(1, a) == math.copysign(1, b))
    if isinstance(a, complex):
        return same(a.real, b.real) and same(a.imag, b.imag)
    if isinstance(a, (list, tuple)) and depth < 6:
        return len(a) == len(b) and all(same(x, y, depth + 1) for x, y in zip(a, b))
    if type(a).__name__ == 'Vec':
        return same(unwrap(a.n), unwrap(b.n), depth + 1)
    try:
        return bool(a == b)
    except Exception:
        return a is b


def run_op(fn, args):
    try:
        return ('ok', fn(*args))
    except Exception as e:
        return ('raise', e)
    except RecursionError as e:  # pragma: no cover
        return ('raise', e)


HEAVY = ('mul', 'pow', 'lshift', 'imul', 'ipow', 'ilshift', 'pow3', 'range', 'str_mul_r', 'matmul', 'format_spec', 'round_n', 'math_sqrt')


def _huge(v, depth=0):
    if isinstance(v, bool):
        return False
    if type(v) is int:
        return abs(v) > 10000
    if type(v) is float:
        return v == v and abs(v) > 10000
    if isinstance(v, (list, tuple, set, frozenset)) and depth < 5:
        return any(_huge(i, depth + 1) for i in v)
    if isinstance(v, dict) and depth < 5:
        return any(_huge(i, depth + 1) for i in v.values())
    return False


def judge(case):
    op, place = case['op'], case['place']
    a_src, b_src = case['a'], case.get('b')
    sb = sandbox()
    if op in HEAVY and (_huge(real_of(a_src)) or (b_src is not None and _huge(real_of(b_src)))):
        # 2 ** 10**20, 'ab' * 10**12 ...: the real operation itself does not terminate / exhausts memory
        return Result([], False, ['skipped-huge-operand'])
    if op == 'mod' and place == 'right' and isinstance(real_of(a_src), (str, bytes)):
        # 'text' % proxy is decided inside str.__mod__ (C code inspects the right operand for the mapping protocol); like a
        # bare proxy needle in a real container this cannot be intercepted by any proxy object
        return Result([], False, ['skipped-c-level-percent-format'])
    if (op == 'isinstance_own' and a_src == 'Masked()') or (op == 'isinstance_other' and a_src == 'Masked()' and b_src == 'Masked()'):
        # isinstance(x, type(x)) succeeds through the type() shortcut, which no proxy can imitate once __class__ names another class
        return Result([], False, ['skipped-type-shortcut'])
    if op in INPLACE:
        # augmented assignment through one of two references to the same result; only immutable values: there x op= y rebinds x and
        # the other reference keeps the old value (a mutable real value would be changed in place and poison the shared operand tables)
        if type(real_of(a_src)) not in IMMUTABLE:
            return Result([], False, ['skipped-mutable-inplace'])
        fn, arity = INPLACE[op], 2
    elif op in BINARY:
        fn, arity = BINARY[op], 2
    elif op in CONTAINER:
        fn, arity = CONTAINER[op], 2
    else:
        fn, arity = UNARY[op], 1
    ra = real_of(a_src)
    if op == 'next_fresh':
        ra = sb.evaluate(a_src)._actual_value       # an iterator of its own for the plain side
    rb = real_of(b_src) if arity == 2 else None
    real = run_op(fn, (ra, rb)[:arity])
    try:
        pa = carried_proxy_of(a_src) if place == 'carried' else proxy_of(a_src) if place in ('left', 'both') else real_of(a_src)
        if op == 'next_fresh':
            pa = sb.evaluate(a_src)                 # ... and another one behind the proxy
    except CarryFailed as e:
        return Result([V('C16|carried|value-does-not-arrive|%s' % type(ra).__name__, str(e))], True, ['carry-failed'])
    pb = None
    if arity == 2:
        pb = proxy_of(b_src) if place in ('right', 'both') else real_of(b_src)
    old = sys.stdout
    buf = io.StringIO()
    sys.stdout = buf
    try:
        prox = run_op(fn, (pa, pb)[:arity])
    finally:
        sys.stdout = old
    printed = buf.getvalue()
    ta = type(ra).__name__
    key = 'C16|op=%s|value=%s|placement=%s' % (op, ta, place)
    if place == 'right' and arity == 2 and ta == 'Coin' and type(real_of(b_src)).__name__ == 'Coin':
        # one root cause (known finding): the student's own method receives the proxy and reads other.value, which on a proxy is the
        # wrapped object itself and not the student's field of that name
        key = 'C16|student-object-with-value-field|own-method-receives-proxy'
    viol = []
    desc = '%s(%s%s) placement=%s' % (op, a_src, (', ' + b_src) if arity == 2 else '', place)
    if printed:
        viol.append(V('C16|op=%s|stdout' % op, '%s wrote %r to standard output' % (desc, printed[:80])))
    if real[0] == 'ok':
        if prox[0] == 'raise':
            viol.append(V(key + '|raises', '%s works on the real value (= %r) but raises %s: %s on the proxy'
                          % (desc, real[1], type(prox[1]).__name__, prox[1])))
        else:
            got = unwrap(prox[1])
            if got is NotImplemented and real[1] is not NotImplemented:
                viol.append(V(key + '|NotImplemented', '%s handed back NotImplemented (real result %r)' % (desc, real[1])))
            elif not same(got, real[1]):
                viol.append(V(key + '|wrong-result', '%s gave %r (%s), real operation gives %r (%s)'
                              % (desc, got, type(got).__name__, real[1], type(real[1]).__name__)))
    else:
        if prox[0] == 'ok':
            got = unwrap(prox[1])
            sym = 'NotImplemented' if got is NotImplemented else 'no-error'
            viol.append(V(key + '|' + sym, '%s fails on the real value (%s: %s) but the proxy returned %r'
                          % (desc, type(real[1]).__name__, real[1], got)))
    ROOT = 'C16|student-object-with-value-field|own-method-receives-proxy'
    if key == ROOT:
        merged = [v for v in viol if not v.cell.startswith(ROOT)]
        first = next((v for v in viol if v.cell.startswith(ROOT)), None)
        if first is not None:
            merged.append(V(ROOT, first.msg))
        viol = merged
    nontrivial = real[0] == 'ok' or not isinstance(real[1], TypeError)
    classes = ['family=' + ('inplace' if op in INPLACE else 'binary' if op in BINARY else 'container' if op in CONTAINER else 'unary'),
               'placement=' + place, 'real=' + ('ok' if real[0] == 'ok' else type(real[1]).__name__)]
    return Result(viol, nontrivial, classes)


def table(tier):
    for op in BINARY:
        for a, b in itertools.product(VALUES, VALUES):
            for place in ('left', 'right', 'both'):
                yield {'op': op, 'a': a, 'b': b, 'place': place}
    for op in INPLACE:
        for a, b in itertools.product(VALUES, VALUES):
            for place in ('left', 'both'):
                yield {'op': op, 'a': a, 'b': b, 'place': place}
    for op in CONTAINER:
        seconds = SPEC_VALUES if op in ('format_spec', 'round_n') else VALUES
        for a, b in itertools.product(VALUES, seconds):
            for place in ('left', 'both'):
                if place == 'both' and op in ('isinstance_other', 'format_spec'):
                    continue   # type(proxy) / a C-level "must be str" check cannot see through any proxy: not the proxied operand
                yield {'op': op, 'a': a, 'b': b, 'place': place}
    # a class (or tuple of classes) that student code handed back, as the second argument of isinstance / issubclass
    for a, b in itertools.product(VALUES, CLASSES):
        for place in ('right', 'both'):
            yield {'op': 'isinstance_cls', 'a': a, 'b': b, 'place': place}
    # a slice object that student code built, as the index
    # (as the index of a real list it meets a C-level PySlice_Check that no proxy object can pass: only the proxied container)
    for a, b in itertools.product(VALUES, KEYS):
        for place in ('left', 'both'):
            yield {'op': 'getitem', 'a': a, 'b': b, 'place': place}
    for op in UNARY:
        if op == 'next_fresh':
            continue
        for a in VALUES:
            yield {'op': op, 'a': a, 'place': 'left'}
            yield {'op': op, 'a': a, 'place': 'carried'}
    for a in ['iter([1, 2])', 'iter(())', '(i * 2 for i in range(3))', "iter('ab')", 'iter({1: 2})', 'reversed([1, 2])', 'zip([1], [2])', 'enumerate("a")', '5', '[1, 2]', "'ab'", 'None']:
        yield {'op': 'next_fresh', 'a': a, 'place': 'left'}
    for op in ('add', 'mul', 'eq', 'lt', 'and', 'or'):
        for a, b in itertools.product(VALUES, VALUES):
            yield {'op': op, 'a': a, 'b': b, 'place': 'carried'}
    for op in ('contains', 'getitem', 'isinstance_other'):
        for a, b in itertools.product(VALUES, VALUES):
            yield {'op': op, 'a': a, 'b': b, 'place': 'carried'}


ENUMS = {'table': table}

_scalars = st.one_of(st.integers(-50, 50), st.integers(-10 ** 12, 10 ** 12), st.booleans(), st.none(),
                     st.floats(allow_nan=False, allow_infinity=False, width=32), st.text('ab %d{}', max_size=5),
                     st.sampled_from([0, 1, 2, -1, 0.5, 'a', '']))
_values = st.recursive(_scalars, lambda ch: st.one_of(st.lists(ch, max_size=4), st.lists(ch, max_size=3).map(tuple),
                                                      st.dictionaries(st.one_of(st.integers(0, 3), st.sampled_from(['a', 'b'])), ch, max_size=3),
                                                      st.frozensets(st.one_of(st.integers(0, 5), st.sampled_from(['a', 'b'])), max_size=3).map(lambda s: set(s))),
                       max_leaves=8)


def random_cases(tier):
    srcs = _values.map(repr)
    binary = st.fixed_dictionaries({'op': st.sampled_from(sorted(BINARY) + sorted(CONTAINER)), 'a': srcs, 'b': srcs,
                                    'place': st.sampled_from(['left', 'right', 'both'])}).map(
        lambda c: dict(c, place='left') if c['op'] in CONTAINER and (c['place'] == 'right' or c['op'] in ('isinstance_other', 'format_spec')) else c)
    unary = st.fixed_dictionaries({'op': st.sampled_from(sorted(UNARY)), 'a': srcs, 'place': st.just('left')})
    return st.one_of(binary, binary, unary)


STRATEGIES = {'random': random_cases}


def plan(tier):
    n = 1500 if tier == 'quick' else 40000
    return [Task('enum', 'table', shards=12), Task('hyp', 'random', shards=4, examples=scale(n))]
CASE_TIME_LIMIT = 20
