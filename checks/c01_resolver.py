"""C01 - the resolver shows the highest-priority eligible feedback and nothing ineligible."""
from vlib.driver import Result, Task, V
from vlib import gen_report as G
from vlib import report_model as M

ID = 'C01'
LEVEL = 'exploration'
RULE = ('Hypothesis generates scenarios (0-8 feedback specs over all core constructors/categories/priorities/kinds/'
        'flags, 0-4 suppressions of every form issued at random points, resolver simple|full|sectional); oracle = '
        'independent rank/suppression model fed with observable attributes only. Non-trivial: >=2 eligible feedbacks '
        'with different ranks, or a suppression that removes a triggered feedback, or a priority that moves a feedback '
        'to another row. Distinct = SHA-1 of the canonical JSON case.')
ASSUMPTIONS = ['labels other than the reserved set_correct_no_errors', 'no custom priority_key',
               'unknown priority words may sort anywhere inside their row (interval oracle)',
               'category None + suppress("uncategorized") is not judged (statement silent)']


def scale(n):
    import os
    return max(1, int(n * float(os.environ.get('VERIF_SCALE', '1'))))


def plan(tier):
    n = 1500 if tier == 'quick' else 40000
    return [Task('hyp', 'scenarios', shards=16, examples=scale(n))]


STRATEGIES = {'scenarios': lambda tier: G.scenario_strategy()}


def resolver_fn(name):
    if name == 'simple':
        from pedal.resolvers.simple import resolve
    elif name == 'full':
        from pedal.resolvers.full import resolve
    else:
        from pedal.resolvers.sectional import resolve
    return resolve


def check_final(final, elig, hidden, tag, viol, full_used=None):
    delivered = (final.title, final.message, final.label, final.category)
    if not elig:
        ok = (final.label == M.DEFAULT_LABEL and (final.category or '').lower() == 'complete'
              and final.title in ('Complete', 'No Errors'))
        if not ok:
            viol.append(V('C01|%s|default-expected' % tag,
                          'no eligible feedback but delivered %r' % (delivered,)))
        return
    cands = [e for e in elig if e.delivered() == delivered]
    if not cands:
        viol.append(V('C01|%s|ineligible-shown' % tag,
                      'delivered %r is not the (title,message,label,category) of any eligible feedback; eligible=%r'
                      % (delivered, [e.delivered() for e in elig])))
        return
    if not M.best_allowed(cands, elig):
        viol.append(V('C01|%s|not-highest' % tag,
                      'delivered %r but a strictly higher-ranked (or earlier tied) eligible feedback exists: %r'
                      % (delivered, [(e.delivered(), e.priority, M.rank_interval(e), e.index) for e in elig])))


def judge(case):
    from pedal.core.report import MAIN_REPORT
    viol, classes = [], []
    raised, sups = G.replay_scenario(case)
    if raised:
        classes.append('ctor-raised')
    obs = M.observe(MAIN_REPORT)
    po = case.get('pool_override')
    if po and obs and case['resolver'] == 'simple' and not case.get('earlier'):
        # (pools are applied by report.finalize_feedbacks(), which only the simple resolver family calls)
        # applied by pedal when the report is finalised (inside resolve); the model applies it to what it observed
        cls = type(obs[po['index'] % len(obs)].fb)
        MAIN_REPORT.set_pools(['A'])
        cls.override_for_pool('A', **{po['field']: po['value']})
        classes.append('pool-override')
        for o in obs:
            if isinstance(o.fb, cls):
                setattr(o, po['field'], po['value'])
    elig, amb = M.eligible(obs, sups)
    if amb:
        MAIN_REPORT.full_clear()
        return Result([], False, ['ambiguous-none-category'], ambiguous=1)
    hidden = M.hides_correctness(sups)
    rname = case['resolver']
    classes.append('resolver=' + rname)
    classes.append('eligible=%d' % min(len(elig), 4))
    for s in sups:
        form = ('category' if s['category'] else '') + ('+label' if s['label'] is not True else '') + \
               ('+fields' if s['fields'] else '')
        classes.append('sup=' + form.strip('+'))
    try:
        for how in case.get('earlier') or []:
            # an earlier resolve of the same report must not change what a later one delivers
            classes.append('resolved-before')
            name, _, rev = how.partition('-')
            if rev:
                order = {id(f): i for i, f in enumerate(MAIN_REPORT.feedback + MAIN_REPORT.ignored_feedback)}
                resolver_fn(name)(priority_key=lambda f: -order.get(id(f), 0))
            else:
                resolver_fn(name)()
        final = resolver_fn(rname)()
    except Exception as e:
        import traceback
        from vlib.gen_report import BAD_SCORES
        if isinstance(e, ValueError) and 'Invalid Score string' in str(e) and any(spec['kw'].get('score') in BAD_SCORES for spec in case['specs']):
            # a score outside the documented grammar: the report is rejected as a whole, which is a clean answer
            MAIN_REPORT.full_clear()
            return Result(viol, False, classes + ['rejected-unparsable-score'])
        tb = traceback.extract_tb(e.__traceback__)[-1]
        viol.append(V('C01|resolve-raises|%s@%s' % (type(e).__name__, tb.name),
                      'resolve() raised %s: %s (at %s:%s)' % (type(e).__name__, e, tb.filename, tb.lineno)))
        MAIN_REPORT.full_clear()
        return Result(viol, True, classes + ['resolve-raised'])
    triggered = [o for o in obs if o.triggered]
    removed = [o for o in triggered if not o.muted and o.kind != 'Compliment' and M.is_suppressed(o, sups)]
    ranks = {M.rank_interval(e) for e in elig}
    moved = any(e.priority is not None and M.rank_interval(e)[0] // 3 != M.row_of_category(e.category) for e in elig)
    nontrivial = len(ranks) >= 2 or bool(removed) or moved
    if len(ranks) < len(elig):
        classes.append('tie-present')
    if removed:
        classes.append('suppression-removed-triggered')
    if moved:
        classes.append('priority-moves-row')
    if rname in ('simple', 'full'):
        check_final(final, elig, hidden, rname, viol)
        if rname == 'full':
            for fb in final.used:
                o = next((x for x in obs if x.fb is fb), None)
                if o is None:
                    viol.append(V('C01|full|used-unknown', 'used contains an object that is not in the report'))
                elif M.is_suppressed(o, sups):
                    viol.append(V('C01|full|used-suppressed', 'used contains suppressed feedback %r' % (o.delivered(),)))
                elif o.triggered and o.muted:
                    viol.append(V('C01|full|used-muted', 'used contains muted feedback %r' % (o.delivered(),)))
        if rname == 'simple' and final.used and elig:
            o = next((x for x in obs if x.fb is final.used[0]), None)
            if o is None or o not in elig:
                viol.append(V('C01|simple|used-ineligible', 'used[0] is not an eligible feedback'))
    else:
        groups = {}
        for o in triggered:
            groups.setdefault(o.parent, []).append(o)
        if set(final.keys()) != set(groups.keys()):
            viol.append(V('C01|sectional|groups', 'groups %r != parents of triggered feedback %r'
                          % (sorted(map(repr, final)), sorted(map(repr, groups)))))
        else:
            for g, members in groups.items():
                gelig = [e for e in elig if e.parent == g and any(e is m for m in members)]
                check_final(final[g], gelig, hidden, 'sectional', viol)
    MAIN_REPORT.full_clear()
    return Result(viol, nontrivial, classes)
