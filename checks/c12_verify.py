"""C12 - verify() reports a syntax error exactly when Python's parser rejects the source."""
import ast
import os
import re

from hypothesis import strategies as st

from vlib.driver import Result, Task, V
from vlib import gen_code as G
from checks.c01_resolver import scale

ID = 'C12'
LEVEL = 'exploration'
RULE = ('G-TEXT: (a) valid programs (G-SYNTAX grammar, repository corpus, AST-mutated corpus), (b) those with 1-4 '
        'character-level edits from an alphabet biased to Python structure characters (brackets, quotes, colon, #, =, '
        'space, tab, newline, CR, form feed, NUL, backslash, non-ASCII letters, keywords), (c) arbitrary UTF-8-encodable '
        'text, (d) empty / whitespace-only; each also inside an independent section at offset k. Oracle: differential '
        'with ast.parse (presence, line, tree dump). Non-trivial: non-blank text that does not parse, or parses to >= 3 '
        'statements. Distinct = SHA-1 of (text, offset). Thorough adds an Atheris (libFuzzer) campaign over the same judge.')
ASSUMPTIONS = ['texts for which ast.parse raises something other than SyntaxError (RecursionError/MemoryError on deep nesting) are skipped',
               'lone surrogates are not generated (not UTF-8-encodable, cannot be read from a file)',
               'the label may be syntax_error or indentation_error for any SyntaxError subclass']
PATTERN = re.compile(r'^(##### Part .+)$', re.MULTILINE)
EDIT_ALPHABET = list('()[]{}:,\'"\\#= \t\n\r\f\0;.@*') + ['é', 'λ', '変', 'if ', 'def ', 'else', 'return ', '"""', "'''", '    ', '\n    ', '0x', '1e', ' ',
                                                          '﻿', 'lambda', 'print', '->', ':=', '!=', '\\\n', '# type: ', '  # type: ignore\n', '# -*- coding: ']


@st.composite
def edited_program(draw):
    text = draw(G.any_valid_program(stdlib=False))
    n = draw(st.integers(1, 4))
    for _ in range(n):
        pos = draw(st.integers(0, max(len(text), 1)))
        pos = min(pos, len(text))
        kind = draw(st.integers(0, 2))
        ch = draw(st.sampled_from(EDIT_ALPHABET))
        if kind == 0:
            text = text[:pos] + ch + text[pos:]
        elif kind == 1:
            text = text[:pos] + text[pos + 1:]
        else:
            text = text[:pos] + ch + text[pos + 1:]
    return text


COMMENTS = G.COMMENTS
commented_program = G.commented_program


# texts that ast.parse() refuses with something else than a SyntaxError
_REFUSED = st.one_of(st.sampled_from(["x = '\ud800'", "print('\udfff')\n", "-" * 5000 + "1", "x" + "+x" * 3000, "y = " + "(" * 120 + "1" + ")" * 120, "a\ud83d = 1\n"]),
                     st.tuples(G.any_valid_program(stdlib=False), st.sampled_from(['\ud800', '\udc00'])).map(lambda t: t[0] + "\ns = '" + t[1] + "'\n"))
_TEXT = st.text(st.characters(exclude_categories=['Cs']), max_size=60)
_BLANK = st.text(st.sampled_from(list(' \t\n\r\f\v') + ['\x1c', '\x85', ' ']), max_size=8)
_LINEY = st.lists(st.sampled_from(['x = 1', '  y = 2', '\tz = 3', 'if x:', 'else:', '    pass', 'print(', ')', '"""', '# c', '', 'def f():', '  return 1',
                                   'for i in range(3):', 'x = (1,', '2)', 'é = 1', 'a = "\\', 'b"', 'class A: pass', '\x0c', 'x = 1 \\', '@', 'lambda: (yield)',
                                   '1 +', 'import', '    \tq = 1', '\t    w = 1', 'try:', 'except:', 'async def g(): await h()', 'match x:', '    case 1: pass', 'names = []  # type: list', '# type: int', 'import os # type: module', 'def g(a):', '    # type: (int) -> int']),
                  max_size=8).map('\n'.join)


_INDENTS = ['\t', '    ', '        ', ' \t', '\t ', '  \t', '  ', '\t\t', '']
_TABMIX = st.tuples(st.sampled_from(['if x:', 'def f():', 'for i in y:', 'while x:', 'class A:', 'try:']), st.sampled_from(_INDENTS),
                    st.sampled_from(_INDENTS), st.sampled_from(_INDENTS), st.sampled_from(['', 'x = 0\n', '\n\n'])).map(
    lambda t: '%s%s\n%sa = 1\n%sb = 2\n%sc = 3\n' % (t[4], t[0], t[1], t[2], t[3]))


def texts(tier):
    base = st.one_of(G.any_valid_program(stdlib=False), edited_program(), edited_program(), commented_program(), _TEXT, _REFUSED, _BLANK, _LINEY, _LINEY.map(lambda t: t + '\n'),
                     _TABMIX)
    prev = st.one_of(st.none(), st.none(), st.sampled_from(['a = 1\nb = 2\nc = a + b\nprint(c)\n', 'x = (\n', '', 'def f():\n    return 1\nf()\nf()\n']))
    return st.fixed_dictionaries({'text': base, 'offset': st.sampled_from([0, 0, 1, 2, 5]), 'prev': prev, 'exotic': st.sampled_from([0, 0, 1, 2, 3, 4, 5])},
                                 optional={'explicit': st.booleans(), 'other_file': st.booleans(), 'again': st.booleans(), 'no_submission': st.booleans()})


STRATEGIES = {'texts': texts}


def reference(text):
    """('ok', tree) | ('syntax', exception) | ('other', exception)"""
    try:
        return 'ok', ast.parse(text, 'answer.py')
    except SyntaxError as e:
        return 'syntax', e
    except (RecursionError, MemoryError, ValueError, OverflowError) as e:
        return 'other', e


def judge(case):
    from pedal.core.commands import contextualize_report
    from pedal.core.report import MAIN_REPORT
    from pedal.source import verify, separate_into_sections, next_section
    text, k = case['text'], case['offset']
    if k and PATTERN.search(text):
        k = 0
    kind, ref = reference(text)
    if kind == 'other':
        # CPython refuses the text without a SyntaxError (lone surrogate: UnicodeEncodeError, nesting too deep: RecursionError):
        # verify() still must not raise, and a syntax feedback must say that the text is not a program
        MAIN_REPORT.full_clear()
        contextualize_report(text)
        try:
            verify()
        except BaseException as e:
            MAIN_REPORT.full_clear()
            return Result([V('C12|verify-raises:%s|refused-text' % type(e).__name__, 'verify() raised %s: %s on text %r' % (type(e).__name__, str(e)[:100], text[:60]))],
                          True, ['refused-without-SyntaxError'])
        syn = [f for f in MAIN_REPORT.feedback if (f.category or '').lower() == 'syntax' and f.label in ('syntax_error', 'indentation_error')]
        MAIN_REPORT.full_clear()
        if len(syn) != 1:
            return Result([V('C12|syntax-error-missed|refused-text', 'CPython refuses %r (%s) but verify() attached %d syntax feedbacks' % (text[:60], type(ref).__name__, len(syn)))],
                          True, ['refused-without-SyntaxError'])
        return Result([], True, ['refused-without-SyntaxError'])
    viol, classes = [], ['section' if k else 'whole-file']
    explicit = False
    MAIN_REPORT.full_clear()
    try:
        if k:
            exotic = ['v = 1\n', '# page \x0c break\n', 's = "a\u2028b"\n', '# \x85 \x0b \x1c\n', 'w = 2\rq = 3\n', 'r = 4\r\n']
            prelude = ''.join(exotic[(case.get('exotic', 0) + i) % len(exotic)] if case.get('exotic') else 'v = 1\n' for i in range(k - 1)) + '##### Part 1\n'
            other_file = bool(case.get('other_file'))
            contextualize_report(prelude + ('fine = 1\nprint(fine)\n' if other_file else text))
            separate_into_sections(independent=True)
            before = len(MAIN_REPORT.feedback)
            next_section()
            if other_file:
                classes.append('other-file-while-section-active')
            # whole-file numbering: the prelude's real line count (line terminators as CPython's tokenizer sees them), not str.splitlines
            shifted_kind, shifted = reference('#\n' * len(re.findall(r'\r\n|\r|\n', prelude)) + text)
            if other_file:
                # the text is another file of the grading, verified under its own name: its lines are its own
                shifted_kind, shifted = kind, ref
        elif case.get('prev') is not None:
            # a history: an earlier text was verified in the same report, then the source is replaced
            from pedal.source import set_source
            contextualize_report(case['prev'])
            try:
                verify()
            except Exception:
                pass
            MAIN_REPORT.feedback.clear()
            MAIN_REPORT.ignored_feedback.clear()
            classes.append('after-previous-verify')
            shifted_kind, shifted = kind, ref
            if case.get('explicit'):
                explicit = True
                classes.append('explicit-code-argument')     # verify(text) while the submission still holds the earlier program
            else:
                MAIN_REPORT.submission.replace_main(text)
        elif case.get('no_submission'):
            # the text is handed to verify() directly on a report that holds no submission at all
            shifted_kind, shifted = kind, ref
            explicit = True
            classes.append('no-submission')
        else:
            contextualize_report(text)
            shifted_kind, shifted = kind, ref
            if case.get('again'):
                # the very same text was verified a moment ago (and reported); the script now installs it with set_source()
                try:
                    verify()
                except Exception:
                    pass
                MAIN_REPORT.feedback.clear()
                MAIN_REPORT.ignored_feedback.clear()
                classes.append('same-text-again-via-set_source')
    except Exception as e:
        MAIN_REPORT.full_clear()
        return Result([V('C12|setup-raises:%s' % type(e).__name__, 'sectioning raised %r for text %r' % (e, text[:200]))], True, classes)
    try:
        if k and case.get('other_file'):
            ok = verify(text, filename='helper.py')
        elif not k and case.get('prev') is None and case.get('again') and not case.get('no_submission'):
            from pedal.source import set_source
            set_source(text)
            ok = MAIN_REPORT['source']['success'] if text.strip() else None
        else:
            ok = verify(text) if explicit else verify()
    except Exception as e:
        import traceback
        tb = traceback.extract_tb(e.__traceback__)[-1]
        MAIN_REPORT.full_clear()
        tag = 'lineno-none' if (kind == 'syntax' and ref.lineno is None) else kind
        return Result([V('C12|verify-raises:%s|%s' % (type(e).__name__, tag),
                         'verify() raised %s: %s (%s:%s) on text %r' % (type(e).__name__, e, tb.filename, tb.lineno, text[:200]))],
                      True, classes + ['verify-raised'])
    syn = [f for f in MAIN_REPORT.feedback if (f.category or '').lower() == 'syntax' and f.label in ('syntax_error', 'indentation_error')]
    blanks = [f for f in MAIN_REPORT.feedback if f.label == 'blank_source']
    blank = text.strip() == ''
    source = MAIN_REPORT['source']
    if blank:
        classes.append('blank')
        if len(blanks) != 1:
            viol.append(V('C12|blank-not-reported', 'blank text %r produced %d blank_source feedbacks' % (text, len(blanks))))
    elif blanks:
        viol.append(V('C12|blank-false-alarm', 'non-blank text %r reported as blank' % text[:100]))
    if kind == 'syntax':
        classes.append(type(ref).__name__)
        if ref.lineno is None:
            classes.append('lineno-none')
        if len(syn) != 1:
            viol.append(V('C12|syntax-error-%s' % ('missed' if not syn else 'duplicated'),
                          'CPython rejects %r (%s: %s) but %d syntax feedback(s) attached' % (text[:200], type(ref).__name__, ref.msg, len(syn))))
        else:
            fb = syn[0]
            want = shifted.lineno if shifted_kind == 'syntax' else None
            if want is not None:
                got = fb.location.line if fb.location is not None else None
                if got != want:
                    viol.append(V('C12|line|%s' % ('other-file-in-section' if (k and case.get('other_file')) else 'section' if k else 'whole-file'),
                                  'CPython reports line %r (whole-file numbering) but the feedback says %r; offset=%d text=%r'
                                  % (want, got, k, text[:200])))
        if ok is not False and not blank:
            viol.append(V('C12|verify-true-on-syntax-error', 'verify() returned %r for rejected text %r' % (ok, text[:100])))
    else:
        if syn:
            viol.append(V('C12|syntax-false-alarm', 'CPython accepts %r but syntax feedback %r attached' % (text[:200], syn[0].label)))
        stored = source.get('ast')
        want_tree = ast.parse(('\n' + text) if (k and not case.get('other_file')) else text)
        if stored is None or ast.dump(stored) != ast.dump(want_tree):
            viol.append(V('C12|stored-tree', 'stored tree differs from ast.parse for %r' % text[:200]))
        if not blank and (ok is not True or source.get('success') is not True):
            viol.append(V('C12|verify-false-on-valid', 'verify() returned %r / success=%r for valid text %r' % (ok, source.get('success'), text[:100])))
    if any(ord(c) < 32 and c not in '\n\t' for c in text):
        classes.append('control-chars')
    if any(ord(c) > 127 for c in text):
        classes.append('non-ascii')
    nontrivial = (not blank) and (kind == 'syntax' or len(getattr(ref, 'body', [])) >= 3)
    MAIN_REPORT.full_clear()
    return Result(viol, nontrivial, classes)


# ---------------------------------------------------------------------------------------------------------
# second engine (thorough): coverage-guided fuzzing with Atheris over the same judge

def atheris_campaign(tier, seed, shard, task, col):
    import subprocess
    import sys
    import json
    here = os.path.dirname(os.path.dirname(os.path.abspath(__file__)))
    work = os.path.join(here, '.work', 'c12_atheris_%d_%d' % (seed, shard))
    import shutil
    shutil.rmtree(work, ignore_errors=True)
    os.makedirs(os.path.join(work, 'corpus'))
    if shard % 2 == 1:   # seeded corpus: snippets from the repository's own tests
        for i, code in enumerate(G.corpus(stdlib=False)[:200]):
            with open(os.path.join(work, 'corpus', 'seed%d' % i), 'w', encoding='utf8') as f:
                f.write(code)
    runs = task.params.get('runs', 200000)
    out = os.path.join(work, 'result.json')
    env = dict(os.environ, C12_FUZZ_OUT=out)
    cmd = [sys.executable, '-W', 'ignore', os.path.join(here, 'tools', 'fuzz_c12.py'), os.path.join(work, 'corpus'),
           '-runs=%d' % runs, '-seed=%d' % (seed * 100 + shard + 1), '-max_len=400', '-timeout=30', '-rss_limit_mb=4096',
           '-artifact_prefix=' + work + '/']
    try:
        subprocess.run(cmd, env=env, stdout=subprocess.DEVNULL, stderr=subprocess.DEVNULL, timeout=task.params.get('wall', 900))
    except subprocess.TimeoutExpired:
        pass
    if os.path.exists(out):
        with open(out) as f:
            data = json.load(f)
        col.evaluations += data['evaluations']
        for h in data['nontrivial']:
            col.nontrivial.add(h)
        col.classes['atheris-executions'] = col.classes.get('atheris-executions', 0) + data['evaluations']
        for cell, slot in data['cells'].items():
            cur = col.cells.get(cell)
            if cur is None or slot['size'] < cur['size']:
                col.cells[cell] = slot
        for s in data['samples']:
            if len(col.samples) < 3:
                col.samples.append(s)
    shutil.rmtree(work, ignore_errors=True)


CUSTOM = {'atheris': atheris_campaign}


def plan(tier):
    if tier == 'quick':
        return [Task('hyp', 'texts', shards=16, examples=scale(600))]
    return [Task('hyp', 'texts', shards=14, examples=scale(30000)),
            Task('custom', 'atheris', shards=2, runs=int(150000 * float(os.environ.get('VERIF_SCALE', '1'))), wall=1500)]
