"""C05 - whatever the sandbox patches is restored after every execution, however it ends."""
import json
import os
import select
import sys
import time
import traceback

from hypothesis import strategies as st

from vlib.driver import Result, Task, V
from checks.c01_resolver import scale

ID = 'C05'
LEVEL = 'exploration'
RULE = ('Hypothesis rule-based state machine (<= 12 steps); every history runs in its own forked child process. Rules: '
        'run / call / evaluate / import of a second student file with a termination mode from {normal, Exception subclasses, '
        'exception with failing __str__, SystemExit, KeyboardInterrupt, GeneratorExit, custom BaseException subclass, timeout '
        '(threaded busy loop or a thread blocked for good on a lock, allowed_time 0.2 s), student code replacing sys.stdout / time.sleep itself}, threaded or not, '
        'tracer style none/native/calls/coverage, clear_sandbox, allow_real_io/block_real_io. Invariant after every rule, '
        'whether the call returned or raised: sys.stdout, time.sleep, sys.gettrace(), the key set and module objects of '
        'sys.modules are the baseline ones, the sandbox patch/stdout stacks are empty and a probe run captures exactly its '
        'own output. Non-trivial: the history contains an abnormal termination followed by at least one further rule. '
        'Distinct = SHA-1 of the JSON op list.')
ASSUMPTIONS = ['after a timeout the abandoned student thread is joined (<= 3 s) before the invariant is read: C05 judges the '
               'quiescent state, the race is C14\'s subject',
               'the sys.modules baseline is taken after one warm-up execution of the benign modes so that lazy imports by pedal '
               'itself are not counted',
               'nested executions (an instructor helper installed with mock_function that calls student code while a run is active) are '
               'generated without injected faults; when one of the two runs out of time (outer threaded, inner threaded or both) no tracer is '
               'used: one tracing session entered from two threads is outside what the tracer classes support. The property lists nested '
               'imports; the nested call is an extension taken from seeded changes']
MIN_NONTRIVIAL = {'quick': 30, 'thorough': 30}

HELPER = 'def helper_value():\n    return 7\nprint("helper loaded")\n'
BASE = ('import sys\n'
        'class Stop(BaseException):\n    pass\n'
        'class BadStr(Exception):\n    def __str__(self):\n        raise RuntimeError("no str")\n'
        'def finish(mode):\n'
        '    print("in finish", mode)\n'
        '    if mode == "normal":\n        return 1\n'
        '    if mode == "value-error":\n        raise ValueError("v")\n'
        '    if mode == "key-error":\n        return {}["k"]\n'
        '    if mode == "bad-str":\n        raise BadStr("b")\n'
        '    if mode == "system-exit":\n        sys.exit(2)\n'
        '    if mode == "keyboard-interrupt":\n        raise KeyboardInterrupt\n'
        '    if mode == "generator-exit":\n        raise GeneratorExit\n'
        '    if mode == "base-exception":\n        raise Stop("stop")\n'
        '    if mode == "busy-loop":\n        while True:\n            pass\n'
        '    if mode == "block-forever":\n        import threading\n        gate = threading.Lock()\n        gate.acquire()\n        gate.acquire()\n        return 9\n'
        '    if mode == "replace-stdout":\n        import io\n        sys.stdout = io.StringIO()\n        print("lost")\n        return 2\n'
        '    if mode == "close-stdout":\n        sys.stdout.close()\n        return 4\n'
        '    if mode == "close-stdout-then-print":\n        sys.stdout.close()\n        print("into the void")\n        return 5\n'
        '    if mode == "rebind-module":\n        import types\n        sys.modules["json"] = types.ModuleType("json")\n        sys.modules["textwrap"] = None\n        return 6\n'
        '    if mode == "reimport-module":\n        import string\n        del sys.modules["string"]\n        import string as again\n        return 7\n'
        '    if mode == "replace-sleep":\n        import time\n        time.sleep = lambda s: None\n        return 3\n'
        '    if mode == "import-json":\n        import colorsys, wave, sunau\n        return len(colorsys.__name__)\n'
        '    if mode == "recursion":\n        return finish(mode)\n'
        '    if mode == "timeout-error":\n        raise TimeoutError("the student says time is up")\n'
        '    if mode == "bdb-quit":\n        import bdb\n        raise bdb.BdbQuit("student")\n'
        '    if mode == "interrupt-main":\n        import _thread\n        _thread.interrupt_main()\n        for _ in range(3 * 10 ** 5):\n            pass\n        return 8\n'
        '    return 0\n')
MODES = ['normal', 'value-error', 'key-error', 'bad-str', 'system-exit', 'keyboard-interrupt', 'generator-exit', 'base-exception',
         'busy-loop', 'block-forever', 'replace-stdout', 'replace-sleep', 'import-json', 'recursion', 'close-stdout', 'close-stdout-then-print', 'rebind-module', 'reimport-module',
         'timeout-error', 'bdb-quit', 'interrupt-main']
ABNORMAL = set(MODES) - {'normal', 'import-json'}
ENTRIES = ['run', 'call', 'evaluate', 'import', 'nested']
# "pedal itself failed while recording": one of the sandbox's own recording steps raises once during the execution
FAULTS = ['append_output', '_capture_exception']


# -------------------------------------------------------------------------------------------------------
# child side

def _ambient_a(frame, event, arg):
    return None


def _ambient_b(frame, event, arg):
    return None


class ChildState:
    def __init__(self):
        import time as _time
        from pedal.core.report import MAIN_REPORT
        from pedal.core.submission import Submission
        from pedal.sandbox.commands import get_sandbox
        import builtins as _b
        self.base_builtins = len(vars(_b))
        self.base_stdout = sys.stdout
        self.base_sleep = _time.sleep
        self.base_trace = sys.gettrace()
        MAIN_REPORT.full_clear()
        MAIN_REPORT.contextualize(Submission(files={'answer.py': BASE, 'helper.py': HELPER}, main_file='answer.py'))
        self.report = MAIN_REPORT
        self.sb = get_sandbox()
        self.sb.run()
        # warm-up of benign modes (lazy imports inside pedal, threading, coverage) before the module baseline
        for threaded in (False, True):
            self.sb.threaded = threaded
            self.sb.allowed_time = 5
            self.sb.call('finish', 'normal')
            self.sb.call('finish', 'value-error')
        for style in ('native', 'calls', 'coverage', 'none'):
            try:
                self.sb.tracer_style = style
                self.sb.call('finish', 'normal')
            except Exception:
                pass
        self.sb.threaded = False
        self.base_modules = dict(sys.modules)

    def quiesce(self, patient=True):
        import threading
        deadline = time.time() + 12      # (an abandoned thread under the coverage tracer needs a while to unwind on a loaded machine)
        waited = self.__dict__.setdefault('_waited', set())
        for t in list(threading.enumerate()):
            if t is not threading.current_thread() and type(t).__name__ == 'InterruptableThread' and t.ident not in waited:
                t.join(max(0.0, min(deadline - time.time(), 6.0 if patient else 1.0)))      # (a thread waiting on a lock never comes back)
                if t.is_alive():
                    waited.add(t.ident)     # blocked for good (uninterruptible): do not wait for it again

    def check(self, what):
        _time = time        # the real module object imported by this file at start-up, not whatever sys.modules holds now
        viol = []
        sb = self.sb
        if sys.stdout is not self.base_stdout:
            viol.append(('C05|stdout-not-restored', 'after %s: sys.stdout is %r' % (what, type(sys.stdout).__name__)))
            sys.stdout = self.base_stdout
        if _time.sleep is not self.base_sleep:
            viol.append(('C05|time.sleep-not-restored', 'after %s: time.sleep is %r' % (what, _time.sleep)))
            _time.sleep = self.base_sleep
        import builtins as _b
        if len(vars(_b)) < self.base_builtins or 'StopIteration' not in vars(_b):
            viol.append(('C05|interpreter-builtins-damaged', 'after %s: the interpreter\'s own builtins namespace lost %d names' % (what, self.base_builtins - len(vars(_b)))))
            self.must_exit = True      # nothing in this process can be trusted any more: report, then leave
            return viol
        if sys.gettrace() is not self.base_trace:
            cell = 'C05|trace-not-restored'
            if self.__dict__.get('blocked_under_coverage') and 'coverage' in type(sys.gettrace()).__module__:
                cell += '|coverage-collector-of-blocked-thread'
            elif self.base_trace is not None and sys.gettrace() is None and getattr(self.sb, '_tracer_style', '') == 'coverage':
                cell += '|coverage-drops-ambient-trace'
            viol.append((cell, 'after %s: sys.gettrace() is %r' % (what, sys.gettrace())))
            sys.settrace(self.base_trace)
        added = sorted(set(sys.modules) - set(self.base_modules))
        removed = sorted(set(self.base_modules) - set(sys.modules))
        changed = sorted(k for k in self.base_modules if k in sys.modules and sys.modules[k] is not self.base_modules[k])
        if added or removed or changed:
            viol.append(('C05|module-table-not-restored', 'after %s: sys.modules added %r removed %r replaced %r' % (what, added[:5], removed[:5], changed[:5])))
            for k in added:
                sys.modules.pop(k, None)
            for k in removed + changed:
                sys.modules[k] = self.base_modules[k]
        if sb._current_patches:
            viol.append(('C05|patch-stack-not-empty', 'after %s: %d patch groups still active' % (what, len(sb._current_patches))))
            while sb._current_patches:
                try:
                    sb._stop_patches()
                except Exception:
                    sb._current_patches.clear()
        if sb._current_stdout:
            viol.append(('C05|stdout-stack-not-empty', 'after %s: %d capture buffers left on the stack' % (what, len(sb._current_stdout))))
            sb._current_stdout.clear()
        return viol

    def probe(self, what):
        sb = self.sb
        threaded, style = sb.threaded, sb.tracer_style
        sb.threaded = False
        before = sb.raw_output
        viol = []
        try:
            sb.run("print('probe')", filename='answer.py')
            got = sb.raw_output[len(before):]
            if got != 'probe\n':
                viol.append(('C05|later-capture-wrong', 'after %s: a later run printing "probe" captured %r' % (what, got)))
            viol += self.check('probe after ' + what)
        except BaseException as e:
            viol.append(('C05|later-execution-fails', 'after %s: a later plain run raised %r' % (what, e)))
        sb.threaded = threaded
        return viol

    def apply(self, op):
        sb = self.sb
        kind = op['op']
        what = kind
        outcome = 'returned'
        try:
            if kind == 'exec':
                sb.threaded = op['threaded']
                sb.allowed_time = 0.2 if op['mode'] in ('busy-loop', 'block-forever') else 5
                if op['mode'] in ('busy-loop', 'block-forever'):
                    sb.threaded = True
                sb.tracer_style = op['tracer']
                mode, entry = op['mode'], op['entry']
                if mode == 'block-forever' and op['tracer'] == 'coverage':
                    self.blocked_under_coverage = True
                what = '%s(%s, threaded=%s, tracer=%s)' % (entry, mode, sb.threaded, op['tracer'])
                fault = op.get('fault') if entry != 'nested' else None
                if fault:
                    what += ' with an injected failure in %s' % fault

                    def failing(*args, **kwargs):
                        sb.__dict__.pop(fault, None)      # one shot: the class's own method is back for later executions
                        raise RuntimeError('injected failure in ' + fault)
                    setattr(sb, fault, failing)
                if entry == 'run':
                    sb.run('finish(%r)\n' % mode, filename='answer.py')
                elif entry == 'call':
                    sb.call('finish', mode)
                elif entry == 'evaluate':
                    sb.evaluate('finish(%r)' % mode)
                elif entry == 'nested':
                    # an instructor helper (mock_function) that itself calls student code on the same sandbox while the outer run is active
                    # (same thread: nested executions that each start their own timeout thread are not generated, see ASSUMPTIONS)
                    timing_out = mode in ('busy-loop', 'block-forever')
                    outer_threaded = bool(op.get('outer_threaded')) and timing_out      # the outer run is the one that runs out of time
                    sb.threaded = outer_threaded
                    inner_threaded = timing_out and (not outer_threaded or bool(op.get('inner_threaded')))
                    if timing_out:
                        sb.tracer_style = 'none'     # two threads inside one tracing session: not generated (see ASSUMPTIONS)
                    what = '%s(%s, outer threaded=%s, inner threaded=%s, tracer=%s)' % (entry, mode, outer_threaded, inner_threaded, sb.tracer_style)
                    self.nested_mismatch = None

                    def ask_inner(m):
                        # the inner call is a call like any other: what it borrowed is back when it returns or raises,
                        # i.e. the outer execution's own patches are in force again
                        snap = lambda: (id(sys.stdout), id(time.sleep), len(sb._current_patches), len(sb._current_stdout), id(sys.modules.get('pedal')))
                        before = snap()
                        try:
                            return sb.call('finish', m, threaded=inner_threaded)
                        finally:
                            # (when the outer run is the one that ran out of time, it has been torn down meanwhile: nothing to compare)
                            if snap() != before and not outer_threaded:
                                self.nested_mismatch = 'stdout/sleep/stack depths/module table before the inner call %r, after it %r' % (before, snap())
                    sb.mock_function('ask_inner', ask_inner)
                    try:
                        sb.run('print("outer before")\nask_inner(%r)\nprint("outer after")\n' % mode, filename='answer.py')
                    finally:
                        sb.clear_mocked_function('ask_inner')
                else:
                    sys.modules.pop('helper', None)
                    sb.run('import helper\nprint(helper.helper_value())\nfinish(%r)\n' % mode, filename='answer.py')
            elif kind == 'clear_sandbox':
                from pedal.sandbox.commands import clear_sandbox
                clear_sandbox()
                sb.run()   # re-define finish()
            elif kind == 'real_io':
                from pedal.sandbox import commands as C
                (C.allow_real_io if op['allow'] else C.block_real_io)()
            elif kind == 'tracer':
                sb.tracer_style = op['style']
            elif kind == 'ambient_trace':
                fn = [None, _ambient_a, _ambient_b][op['which']]
                sys.settrace(fn)
                self.base_trace = fn
                what = 'ambient_trace(%d)' % op['which']
            elif kind == 'module_rule':
                rule = op['rule']
                if rule == 'block-time':
                    sb.block_module('time')
                elif rule == 'mock-time-without-sleep':
                    sb.mock_module('time', {'time': lambda: 0.0})
                elif rule == 'block-sys':
                    sb.block_module('colorsys')
                elif rule == 'mock-io':
                    sb.mock_module('wave', {'open': lambda *a: None})
                elif rule == 'block-real-sys':
                    sb.block_module('sys')
                elif rule == 'exec-globals-as-data':
                    # student data taken from a dictionary that was used with exec(): its __builtins__ entry is the interpreter's own
                    g = {}
                    exec(BASE, g)
                    sb.set_student_data(g)
                else:
                    sb.clear_mocks()
                what = 'module_rule(%s)' % rule
        except BaseException as e:
            outcome = 'raised ' + type(e).__name__
        finally:
            for name in FAULTS:
                sb.__dict__.pop(name, None)
        self.quiesce(patient=not (kind == 'exec' and op.get('mode') == 'block-forever'))
        if kind == 'exec' and op.get('mode') == 'recursion' and self.base_trace is not None and sys.gettrace() is None:
            # CPython itself removes a Python-level trace function that fails, and at the recursion limit calling it fails: not pedal's doing
            self.base_trace = None
        viol = self.check('%s [%s]' % (what, outcome))
        if kind == 'exec' and getattr(self, 'nested_mismatch', None):
            viol.append(('C05|nested-call-did-not-restore-outer-state', 'during %s: %s' % (what, self.nested_mismatch)))
            self.nested_mismatch = None
        if kind == 'real_io' and op.get('allow'):
            return viol   # with real I/O allowed the probe text goes to the real stdout by design
        if not getattr(self, 'must_exit', False):
            viol += self.probe(what)
        return viol


def child_main(rfd, wfd):
    import warnings
    warnings.simplefilter('ignore')
    try:   # real-I/O modes write to the process' real stdout: keep it out of the check's own output
        devnull = os.open(os.devnull, os.O_WRONLY)
        os.dup2(devnull, 1)
    except OSError:
        pass
    out = os.fdopen(wfd, 'w', buffering=1)
    inp = os.fdopen(rfd, 'r')
    try:
        state = ChildState()
        out.write(json.dumps({'ready': True}) + '\n')
    except BaseException as e:
        out.write(json.dumps({'ready': False, 'err': ''.join(traceback.format_exception(type(e), e, e.__traceback__))[-3000:]}) + '\n')
        os._exit(1)
    for line in inp:
        op = json.loads(line)
        if op.get('op') == 'quit':
            break
        try:
            viol = state.apply(op)
            out.write(json.dumps({'v': viol}) + '\n')
            if getattr(state, 'must_exit', False):
                out.flush()
                os._exit(3)
        except BaseException as e:
            out.write(json.dumps({'err': ''.join(traceback.format_exception(type(e), e, e.__traceback__))[-3000:]}) + '\n')
    os._exit(0)


# -------------------------------------------------------------------------------------------------------
# parent side

class Stepper:
    def __init__(self, tier):
        p2c_r, p2c_w = os.pipe()
        c2p_r, c2p_w = os.pipe()
        self.pid = os.fork()
        if self.pid == 0:
            os.close(p2c_w)
            os.close(c2p_r)
            try:
                child_main(p2c_r, c2p_w)
            finally:
                os._exit(0)
        os.close(p2c_r)
        os.close(c2p_w)
        self.w = os.fdopen(p2c_w, 'w', buffering=1)
        self.rfd = c2p_r
        self.buf = b''
        self.history = []
        msg = self.read(60)
        if not msg or not msg.get('ready') or msg.get('_timeout'):
            self.kill()
            raise RuntimeError('C05 child failed to start: %s' % (msg or {}).get('err'))

    def read(self, timeout):
        deadline = time.time() + timeout
        while b'\n' not in self.buf:
            left = deadline - time.time()
            if left <= 0:
                return {'_timeout': True}
            ready, _, _ = select.select([self.rfd], [], [], min(left, 1.0))
            if ready:
                chunk = os.read(self.rfd, 65536)
                if not chunk:
                    return None
                self.buf += chunk
        line, self.buf = self.buf.split(b'\n', 1)
        return json.loads(line.decode())

    def kill(self):
        try:
            os.kill(self.pid, 9)
        except OSError:
            pass
        try:
            os.waitpid(self.pid, 0)
        except OSError:
            pass
        try:
            self.w.close()
            os.close(self.rfd)
        except OSError:
            pass

    def op_strategy(self):
        ex = st.fixed_dictionaries({'op': st.just('exec'), 'entry': st.sampled_from(ENTRIES), 'mode': st.sampled_from(MODES),
                                    'threaded': st.booleans(), 'tracer': st.sampled_from(['none', 'none', 'native', 'calls', 'coverage'])},
                                   optional={'fault': st.sampled_from(FAULTS), 'outer_threaded': st.booleans(), 'inner_threaded': st.booleans()})
        return st.one_of(ex, ex, ex, ex, st.just({'op': 'clear_sandbox'}),
                         st.fixed_dictionaries({'op': st.just('real_io'), 'allow': st.booleans()}),
                         st.fixed_dictionaries({'op': st.just('tracer'), 'style': st.sampled_from(['none', 'native', 'calls', 'coverage'])}),
                         # instructor-side module rules that touch the very things the sandbox borrows
                         # the grader itself runs under a trace function (a debugger, its own coverage measurement), which may change between executions
                         st.fixed_dictionaries({'op': st.just('ambient_trace'), 'which': st.sampled_from([0, 1, 1, 2])}),
                         st.fixed_dictionaries({'op': st.just('module_rule'), 'rule': st.sampled_from(['block-time', 'mock-time-without-sleep', 'block-sys', 'mock-io', 'clear', 'block-real-sys', 'exec-globals-as-data'])}))

    def apply(self, op):
        self.history.append(op)
        if getattr(self, 'gave_up', False):
            return []
        try:
            self.w.write(json.dumps(op) + '\n')
            self.w.flush()
        except (BrokenPipeError, ValueError):
            return [V('C05|process-died', 'the grading process died before %r' % (op,))]
        msg = self.read(90)
        if msg is None:
            return [V('C05|process-died', 'the grading process died while applying %r (history %r)' % (op, self.history[-3:]))]
        if msg.get('_timeout'):
            # no answer within the budget of one operation (a loaded machine, or a hang - that is C14's subject): the rest of this
            # history is not judged; counted in the evidence as inconclusive
            self.gave_up = True
            self.kill()
            return []
        if 'err' in msg:
            raise RuntimeError('C05 child harness error:\n' + msg['err'])
        return [V(c, m) for c, m in msg['v']]

    def finish(self, viol):
        try:
            self.w.write(json.dumps({'op': 'quit'}) + '\n')
            self.w.flush()
        except Exception:
            pass
        self.kill()
        abnormal_at = [i for i, o in enumerate(self.history) if o.get('op') == 'exec' and o.get('mode') in ABNORMAL]
        nontrivial = bool(abnormal_at) and abnormal_at[0] < len(self.history) - 1
        classes = sorted(({'operation-timeout(inconclusive)'} if getattr(self, 'gave_up', False) else set()) | {'mode=' + o['mode'] for o in self.history if o.get('op') == 'exec'} | {'fault=' + o['fault'] for o in self.history if o.get('fault')} |
                         {'entry=' + o['entry'] for o in self.history if o.get('op') == 'exec'})
        seen, out = set(), []
        for v in viol:
            if v.cell not in seen:
                seen.add(v.cell)
                out.append(v)
        return Result(out, nontrivial, classes)


MACHINES = {'restore': Stepper}


def plan(tier):
    n = 60 if tier == 'quick' else 1500
    return [Task('machine', 'restore', shards=16, examples=scale(n), steps=12)]


def judge(case):
    from vlib.stateful import judge_ops
    return judge_ops(Stepper, 'quick', case['ops'])
