"""C14 - a time-limit violation yields exactly one timeout report and a usable sandbox (forced schedules)."""
import itertools
import os
import sys
import threading
import time

from vlib.driver import Result, Task, V

ID = 'C14'
LEVEL = 'exploration'
RULE = ('Enumerated product: program kind (busy loop, loop that prints, loop swallowing Exception, loop swallowing '
        'BaseException silently / while printing, thread blocked on a lock, loop that writes to stdout through '
        'sys.stdout.write, import of a second student file that loops silently / while printing) x entry point (run, call, evaluate) x schedule forced through the guarded sync points (caller '
        'handler first; student handler first; student parked until the next execution is running; student never released) x '
        'follow-up operations (run/call/evaluate that print, read input and return values) x allowed_time in {0.1, 0.2}. Every '
        'case runs in a forked child with a watchdog. Oracle: the call returns within the limit + 30 s (only a hang fails; a zombie thread competing for the GIL makes everything slow); the exception is a '
        'TimeoutError right after the call and after the abandoned thread ran its handler; exactly one runtime feedback '
        '(TimeoutError) for that execution; clean patch stacks before each follow-up; each follow-up\'s output / return value / '
        'raw-output delta equals that of a sandbox that never timed out; sys.stdout and time.sleep restored at the end. '
        'Non-trivial: every case times out; distinct by (kind, entry, schedule, follow-ups, limit).')
ASSUMPTIONS = ['a long single C call (sum(range(10**9))) holds the GIL so that neither thread can act before it ends; it is outside the '
               'property\'s quantifier (busy loop, printing loop, swallowing loop, lock) and not generated',
               'thread order is controlled at three sync points only; interleavings inside the two handlers are left to the GIL',
               'the hooks are no-ops unless PEDAL_EDU_PEDAL_VERIF=1 and a callback is installed',
               '"returns within a bounded delay" is the only wall-clock oracle: limit + 30 s, i.e. only a hang fails']
EXHAUSTIVE = {'quick': False, 'thorough': True}
EXHAUSTIVE_NOTE = 'thorough enumerates the complete product of the listed axes; quick takes a covering subset'
REGRESS_ISOLATE = True
WALL_BUDGET = {'quick': 900, 'thorough': 7200}

BASE = '''import sys
import threading
held = threading.Lock()
def spin():
    while True:
        pass
def spin_print():
    n = 0
    while True:
        n += 1
        if n % 500 == 0:
            print('tick')
def swallow_exception():
    while True:
        try:
            x = 1
        except Exception:
            pass
def swallow_base():
    while True:
        try:
            while True:
                pass
        except BaseException:
            pass
def swallow_base_print():
    n = 0
    while True:
        try:
            while True:
                n += 1
                if n % 500 == 0:
                    print('zombie')
        except BaseException:
            pass
def block_on_lock():
    held.acquire()
    held.acquire()
    return 1
def long_c_call():
    return sum(range(3 * 10 ** 8))
def writer():
    while True:
        sys.stdout.write('')
def swallow_once():
    # swallows the interruption once, keeps going for a moment (while a later execution may be running) and then ends normally
    try:
        while True:
            pass
    except BaseException:
        pass
    n = 0
    while n < 3000000:
        n += 1
    return 1
def swallow_once_raise():
    try:
        while True:
            pass
    except BaseException:
        pass
    n = 0
    while n < 3000000:
        n += 1
    raise ValueError('late failure of the abandoned thread')
def import_spin():
    import looper
def import_spin_print():
    import looper_print
gate = threading.Event()
def wait_gate():
    gate.wait(30)
    return 1
def helper_loop():
    # `helper` is put into the namespace by the instructor; it calls back into the sandbox (call('wait_gate')), so the time
    # runs out while student code of the INNER execution is running (the harness opens the gate once the timeout is reported)
    while True:
        helper()
def say(text):
    print(text)
    return len(text)
def ask():
    return input('value?')
'''
# the student's second files, imported by import_spin / import_spin_print (threaded imports run in a nested timeout thread)
EXTRA_FILES = {'looper.py': 'while True:\n    pass\n',
               'looper_print.py': "n = 0\nwhile True:\n    n += 1\n    if n % 500 == 0:\n        print('tick from module')\n"}
KINDS = ['spin', 'spin_print', 'swallow_exception', 'swallow_base', 'swallow_base_print', 'block_on_lock', 'writer', 'import_spin', 'import_spin_print', 'swallow_once', 'swallow_once_raise', 'helper_loop']


def submission():
    from pedal.core.submission import Submission
    files = {'answer.py': BASE}
    files.update(EXTRA_FILES)
    return Submission(files=files, main_file='answer.py', main_code=BASE)
ENTRIES = ['run', 'call', 'evaluate', 'run-real-io', 'call-in-handler']
SCHEDULES = ['caller-first', 'student-first', 'student-during-next', 'student-never']
FOLLOWUPS = [['run-input-default', 'run-print'], ['run-exit-threaded', 'run-print'], ['call-say', 'run-slow'], ['run-print', 'run-slow'], ['evaluate-say', 'call-ask'], ['call-ask', 'run-slow', 'call-say'], ['run-slow', 'run-print'], []]
LIMITS = [0.1, 0.2]
REACHES_HANDLER = {'spin', 'spin_print', 'swallow_exception', 'writer', 'import_spin', 'import_spin_print', 'helper_loop'}


def table(tier):
    if tier == 'thorough':
        for kind, entry, sched, fu, lim in itertools.product(KINDS, ENTRIES, SCHEDULES, range(len(FOLLOWUPS)), LIMITS):
            if kind == 'helper_loop' and sched not in ('caller-first', 'student-during-next'):
                continue
            yield {'kind': kind, 'entry': entry, 'schedule': sched, 'followups': FOLLOWUPS[fu], 'limit': lim}
        return
    i = 0
    for kind, sched in itertools.product(KINDS, SCHEDULES):
        if kind == 'helper_loop' and sched not in ('caller-first', 'student-during-next'):
            continue      # (the inner execution only moves on once the caller has reported the timeout)
        for entry in ENTRIES:
            fu = FOLLOWUPS[0] if entry == 'run-real-io' and i % 3 else FOLLOWUPS[i % len(FOLLOWUPS)]
            yield {'kind': kind, 'entry': entry, 'schedule': sched, 'followups': fu, 'limit': LIMITS[i % 2]}
            i += 1


def traced_table(tier):
    """Tracing switched on (native style): the timed-out thread is gone (or waits on a lock for good, still inside its traced block);
    the executions after it are traced like in a sandbox that never timed out."""
    for kind in ('spin', 'block_on_lock', 'writer', 'import_spin'):
        for sched in ('caller-first', 'student-never'):
            for entry in ('run', 'call'):
                yield {'kind': kind, 'entry': entry, 'schedule': sched, 'followups': ['call-say', 'run-print', 'evaluate-say'], 'limit': 0.2, 'tracer': 'native'}


ENUMS = {'table': table, 'traced': traced_table}


def do_followup(sb, name, sync=None):
    """Returns (printed text, returned value) of one follow-up operation."""
    from pedal.sandbox.result import is_sandbox_result
    before = sb.raw_output
    threaded = sb.threaded
    sb.threaded = False
    traced_before = len(sb.trace.lines) if type(sb.trace).__name__ == 'SandboxNativeTracer' else None
    if name == 'call-say':
        r = sb.call('say', 'hello')
    elif name == 'evaluate-say':
        r = sb.evaluate("say('abc') + 1")
    elif name == 'call-ask':
        # always a callable input source (no prompt echo), so that the forced-schedule variant and the reference agree
        sb.set_input(sync if sync is not None else (lambda prompt: 'typed'))
        r = sb.call('ask')
    elif name == 'run-exit-threaded':
        # a later execution, again in its own thread, that ends through sys.exit(): it is an ordinary execution, not an abandoned one
        sb.threaded = True
        sb.allowed_time = 5
        sb.run("import sys\nprint('leaving')\nresult_value = 3\nsys.exit(3)\n", filename='answer.py')
        r = sb.data.get('result_value')
    elif name == 'run-input-default':
        # nothing queued: input() gives the sandbox's default, its prompt is captured, nothing is read from the real stdin
        sb.run("answer = input('How many?')\nprint('got', answer)\nresult_value = answer\n", filename='answer.py')
        r = sb.data.get('result_value')
    elif name == 'run-slow':
        # long enough (tens of ms) for a still-running abandoned thread to get the GIL and write into this capture
        sb.run("acc = 0\nfor i in range(400000):\n    acc += i % 7\nprint('slow', acc)\nresult_value = acc\n", filename='answer.py')
        r = sb.data.get('result_value')
    else:
        sb.run("print('follow', 1 + 1)\nresult_value = 7\n", filename='answer.py')
        r = sb.data.get('result_value')
    sb.threaded = threaded
    val = r._actual_value if is_sandbox_result(r) else r
    if isinstance(val, BaseException):
        val = 'EXC:' + type(val).__name__
    exc = sb.exception
    ctx_out = sb._context[-1].output if sb._context else None
    # the execution record a result proxy points to must be the record of that very execution
    linked = None
    if is_sandbox_result(r):
        try:
            linked = sb.get_context(r._actual_context_id)[-1].code
        except Exception as e:
            linked = 'get_context raised %s' % type(e).__name__
    out = {'delta': sb.raw_output[len(before):], 'value': val, 'exception': type(exc).__name__ if exc is not None else None, 'context_output': ctx_out,
           'linked_record': linked}
    if traced_before is not None and name in ('call-say', 'evaluate-say', 'run-print', 'run-input-default'):
        # with tracing switched on, a later execution is traced like any other (the lines it ran, in order)
        out['traced_lines'] = list(sb.trace.lines[traced_before:])
    return out


def reference_followups(names, tracer=None):
    """What the same follow-ups give in a sandbox that never timed out."""
    from pedal.core.commands import contextualize_report
    from pedal.core.report import MAIN_REPORT
    from pedal.sandbox.commands import get_sandbox
    MAIN_REPORT.full_clear()
    contextualize_report(submission())
    sb = get_sandbox()
    sb.run()
    if tracer:
        sb.tracer_style = tracer
    out = [do_followup(sb, n) for n in names]
    MAIN_REPORT.full_clear()
    return out


def judge(case):
    """Runs inside a forked child (Task isolate=True)."""
    os.environ['PEDAL_EDU_PEDAL_VERIF'] = '1'
    import time as _time
    from pedal.core.commands import contextualize_report
    from pedal.core.report import MAIN_REPORT
    from pedal.sandbox.commands import get_sandbox
    from pedal.sandbox import timeout as T
    from pedal.sandbox.result import is_sandbox_result
    kind, entry, schedule, followups, limit = case['kind'], case['entry'], case['schedule'], case['followups'], case['limit']
    base_stdout, base_sleep = sys.stdout, _time.sleep
    viol, classes = [], ['kind=' + kind, 'schedule=' + schedule, 'entry=' + entry]
    expected = reference_followups(followups, case.get('tracer'))

    MAIN_REPORT.full_clear()
    contextualize_report(submission())
    sb = get_sandbox()
    sb.run()
    main_thread = threading.current_thread()
    release_student = threading.Event()
    release_caller = threading.Event()
    student_in_handler = threading.Event()
    student_done = threading.Event()
    state = {'student_thread': None, 'harness_wait': 0.0, 'phase': 'call', 'abandoned_threads': set()}

    def callback(point):
        t_in = _time.time()
        try:
            _callback(point)
        finally:
            if threading.current_thread() is main_thread:
                state['harness_wait'] += _time.time() - t_in

    def _callback(point):
        me = threading.current_thread()
        if point == 'student_exit_handler' and me is not main_thread and state['phase'] != 'call' and me not in state['abandoned_threads']:
            return      # the thread of a later (threaded) follow-up execution that ends through sys.exit(): not the abandoned one
        if point == 'student_exit_handler' and me is not main_thread:
            state['student_thread'] = me
            student_in_handler.set()
            if schedule in ('caller-first', 'student-during-next', 'student-never'):
                release_student.wait(30)
        elif point in ('after_terminate', 'caller_timeout_handler') and me is main_thread:
            if schedule == 'student-first':
                # let the student run its whole handler first (if it ever gets there)
                student_in_handler.wait(2.0)
                t = state['student_thread']
                if t is not None:
                    t.join(5.0)
    T.set_verif_callback(callback)
    sb.threaded = True
    sb.allowed_time = limit
    # an instructor helper that student code can call and that itself calls student code (same sandbox, same thread)
    sb.data['helper'] = lambda: sb.call('wait_gate', threaded=False)
    if case.get('tracer'):
        sb.tracer_style = case['tracer']
        classes.append('tracer=' + case['tracer'])

    def runtime_feedback():
        return [f for f in MAIN_REPORT.feedback if (f.category or '').lower() == 'runtime']
    before = len(runtime_feedback())
    t0 = _time.time()
    try:
        if entry == 'run':
            sb.run('%s()\n' % kind, filename='answer.py')
        elif entry == 'run-real-io':
            # real input/output allowed for this one execution only: what it switched on is switched off again when it times out
            sb.run('%s()\n' % kind, filename='answer.py', real_io=True)
        elif entry == 'call':
            sb.call(kind)
        elif entry == 'call-in-handler':
            # the instructor script falls back to calling the student's function while it handles an exception of its own
            try:
                raise KeyError('the instructor script looked something up')
            except KeyError:
                sb.call(kind)
        else:
            sb.evaluate('%s()' % kind)
    except BaseException as e:
        T.set_verif_callback(None)
        return Result([V('C14|escapes:%s' % type(e).__name__, '%s(%s) schedule=%s raised %r into the grader' % (entry, kind, schedule, e))], True, classes)
    if kind == 'helper_loop':
        sb.data['gate'].set()
    state['abandoned_threads'] = {t for t in threading.enumerate() if t is not main_thread}
    state['phase'] = 'followups'
    elapsed = _time.time() - t0 - state['harness_wait']
    desc = '%s(%s) limit=%s schedule=%s' % (entry, kind, limit, schedule)
    if elapsed > limit + 30:
        viol.append(V('C14|late-return', '%s returned after %.1f s' % (desc, elapsed)))

    def exception_name():
        e = sb.exception
        if is_sandbox_result(e):
            e = e._actual_value
        return type(e).__name__ if e is not None else None
    cellk = 'zombie-' + kind if kind not in REACHES_HANDLER else 'interruptible'
    if exception_name() != 'TimeoutError':
        viol.append(V('C14|exception-after-call|%s|%s' % (schedule, cellk), '%s: sandbox exception right after the call is %s' % (desc, exception_name())))
    new = runtime_feedback()[before:]
    names = [f.fields.get('exception_name') for f in new]
    if names != ['TimeoutError']:
        viol.append(V('C14|feedback-after-call|%s|%s' % (schedule, cellk), '%s: runtime feedback right after the call: %r' % (desc, names)))

    # follow-up operations
    def sync_input(prompt):
        release_student.set()
        t = state['student_thread']
        if t is not None:
            t.join(5.0)
        return 'typed'
    if schedule == 'caller-first':
        release_student.set()
        t = state['student_thread']
        if t is None and kind in REACHES_HANDLER:
            student_in_handler.wait(2.0)
            t = state['student_thread']
        if t is not None:
            t.join(5.0)
    for i, name in enumerate(followups):
        if sb._current_patches or sb._current_stdout:
            viol.append(V('C14|dirty-stacks-before-followup|%s|%s' % (schedule, cellk), '%s: before follow-up %d (%s): %d patch groups, %d capture buffers'
                          % (desc, i, name, len(sb._current_patches), len(sb._current_stdout))))
            break
        use_sync = schedule == 'student-during-next' and name == 'call-ask'
        try:
            got = do_followup(sb, name, sync_input if use_sync else None)
        except BaseException as e:
            viol.append(V('C14|followup-raises|%s|%s' % (schedule, cellk), '%s: follow-up %s raised %r' % (desc, name, e)))
            break
        state['followups_done'] = i + 1
        want = expected[i]
        if got != want:
            field = next(k for k in want if got.get(k) != want[k])
            cell = 'C14|followup-altered|%s|%s|%s' % (field, schedule, cellk)
            if kind == 'swallow_base_print':
                cell = 'C14|kind=swallow-base+print|followup-output-altered'
            viol.append(V(cell, '%s: follow-up %d (%s) gave %r, a sandbox that never timed out gives %r'
                          % (desc, i, name, got, want)))
            break
    if schedule == 'student-during-next':
        release_student.set()
    # let the abandoned thread (if it can) run its handler, then look again
    if schedule != 'student-never':
        release_student.set()
        t = state['student_thread']
        if t is None and kind in REACHES_HANDLER:
            student_in_handler.wait(2.0)
            t = state['student_thread']
        if t is not None:
            t.join(5.0)
        if not followups and exception_name() != 'TimeoutError':
            viol.append(V('C14|exception-after-handler|%s|%s' % (schedule, cellk), '%s: after the abandoned thread ran its handler the sandbox exception is %s'
                          % (desc, exception_name())))
        new = runtime_feedback()[before:]
        names = [f.fields.get('exception_name') for f in new if f.fields.get('exception_name') in ('TimeoutError', 'SystemExit')]
        # every 'run-exit-threaded' follow-up that ran legitimately reports its own SystemExit
        own_exits = ['SystemExit'] * sum(1 for n in followups[:state.get('followups_done', 0)] if n == 'run-exit-threaded')
        if names != ['TimeoutError'] + own_exits:
            viol.append(V('C14|feedback-after-handler|%s|%s' % (schedule, cellk), '%s: runtime feedback for the timed-out execution after the abandoned thread ran '
                                                                               'its handler: %r' % (desc, names)))
        if kind in REACHES_HANDLER and (sb._current_patches or sb._current_stdout):
            viol.append(V('C14|dirty-stacks-at-end|%s|%s' % (schedule, cellk), '%s: at the end %d patch groups, %d capture buffers'
                          % (desc, len(sb._current_patches), len(sb._current_stdout))))
    if sys.stdout is not base_stdout:
        viol.append(V('C14|stdout-not-restored|%s|%s' % (schedule, cellk), '%s: sys.stdout is %r at the end' % (desc, type(sys.stdout).__name__)))
    if _time.sleep is not base_sleep:
        viol.append(V('C14|sleep-not-restored|%s|%s' % (schedule, cellk), '%s: time.sleep is patched at the end' % desc))
    T.set_verif_callback(None)
    seen, out = set(), []
    for v in viol:
        if v.cell not in seen:
            seen.add(v.cell)
            out.append(v)
    return Result(out, True, classes)


def on_hang(case):
    return Result([V('C14|hang|%s|%s' % (case['schedule'], case['kind']), 'the grading process did not finish within the watchdog for %r' % (case,))], True, ['hang'])


def plan(tier):
    return [Task('enum', 'table', shards=14, isolate=True, timeout=90), Task('enum', 'traced', shards=2, isolate=True, timeout=90)]
